"""C17 Failures are loud: an unscanned input is never reported as 'not found'."""
import copy, os
import gen, impl, model, objfuzz

CONSTS = ()
ASSUMPTIONS = ["faults are injected one at a time into a valid (rule, input) pair whose fault-free verdict is 'found'",
               "operating-system faults (missing executable, unreadable files) are runtime behaviour: covered by this tie only",
               "the registered commands do not run Python with -O (several faults are loud only through assert)"]

BASE_INSTS = [("401000", "push", ["%rbp"]), ("401001", "mov", ["%rsp", "%rbp"]), ("401004", "call", ["401020 <f>"]),
              ("401009", "mov", ["0x8(%rax,%rbx,4)", "%rcx"]), ("40100e", "pop", ["%rbp"]), ("40100f", "ret", [])]
BASE_RULE = {"config": {"mnemonics-full-match": False}, "macros": [{"name": "@m", "pattern": [{"$or": ["mov", "lea"]}]}],
             "pattern": ["push", "@m", {"call": {"times": {"min": 1, "max": 2}}},
                         {"mov": [{"$deref": {"main_reg": "rax", "register_multiplier": "rbx", "constant_multiplier": 4, "constant_offset": "0x8"}}]},
                         {"$not": ["ret"]}, {"$or": ["ret", "leave"]}]}


def rule_faults():
    """(name, mutated rule document or raw YAML text)"""
    out = []

    def mut(name, f):
        d = copy.deepcopy(BASE_RULE)
        f(d)
        out.append((name, d))
    mut("missing-pattern", lambda d: d.pop("pattern"))
    mut("pattern-is-a-string", lambda d: d.__setitem__("pattern", "mov"))
    mut("pattern-is-null", lambda d: d.__setitem__("pattern", None))
    mut("pattern-is-an-int", lambda d: d.__setitem__("pattern", 5))
    mut("config-is-a-list", lambda d: d.__setitem__("config", ["x"]))
    mut("config-is-null", lambda d: d.__setitem__("config", None))
    mut("flag-is-a-string", lambda d: d["config"].__setitem__("mnemonics-full-match", "true"))
    mut("sections-is-a-string", lambda d: d["config"].__setitem__("sections", ".text"))
    mut("valid-addr-range-is-a-list", lambda d: d["config"].__setitem__("valid_addr_range", ["1", "2"]))
    mut("valid-addr-range-not-hex", lambda d: d["config"].__setitem__("valid_addr_range", {"min": "zz", "max": "10"}))
    mut("macros-is-a-dict", lambda d: d.__setitem__("macros", {"name": "@m"}))
    mut("empty-$or", lambda d: d["pattern"].__setitem__(5, {"$or": []}))
    mut("empty-$and", lambda d: d["pattern"].append({"$and": []}))
    mut("empty-$and_any_order", lambda d: d["pattern"].append({"$and_any_order": []}))
    mut("empty-$not", lambda d: d["pattern"].__setitem__(4, {"$not": []}))
    mut("$not-with-two-arguments", lambda d: d["pattern"].__setitem__(4, {"$not": ["ret", "nop"]}))
    mut("$deref-without-main_reg", lambda d: d["pattern"][3]["mov"][0]["$deref"].pop("main_reg"))
    mut("$deref-empty-field", lambda d: d["pattern"][3]["mov"][0]["$deref"].__setitem__("main_reg", []))
    mut("negative-times", lambda d: d["pattern"].__setitem__(2, {"call": {"times": -1}}))
    mut("negative-min", lambda d: d["pattern"].__setitem__(2, {"call": {"times": {"min": -1, "max": 2}}}))
    mut("inverted-times", lambda d: d["pattern"].__setitem__(2, {"call": {"times": {"min": 3, "max": 1}}}))
    mut("inverted-times-sibling", lambda d: d["pattern"].__setitem__(5, {"$or": ["ret", "leave"], "times": {"min": 2, "max": 1}}))
    mut("undefined-macro-item", lambda d: d["pattern"].__setitem__(0, "@nope"))
    mut("undefined-macro-operand", lambda d: d["pattern"].__setitem__(0, {"push": ["@nope"]}))
    mut("undefined-macro-key", lambda d: d["pattern"].__setitem__(0, {"@nope": ["rbp"]}))
    mut("undefined-macro-key-times", lambda d: d["pattern"].__setitem__(0, {"@nope": {"times": 1}}))
    # an undefined macro reached only through the body of another macro (as item, operand, key, inside a name)
    mut("undefined-macro-in-body-item", lambda d: d["macros"].__setitem__(0, {"name": "@m", "pattern": ["@nope"]}))
    mut("undefined-macro-in-body-operand", lambda d: d["macros"].__setitem__(0, {"name": "@m", "pattern": [{"mov": ["@nope"]}]}))
    mut("undefined-macro-in-body-key", lambda d: d["macros"].__setitem__(0, {"name": "@m", "pattern": [{"@nope": ["rsp"]}]}))
    mut("undefined-macro-in-body-of-last-of-two", lambda d: d.__setitem__("macros", [
        {"name": "@unused", "pattern": "nop"}, {"name": "@m", "pattern": [{"mov": ["@nope", "rbp"]}]}]))
    mut("macro-name-without-@", lambda d: d["macros"].append({"name": "plain", "pattern": "x"}))
    mut("macro-without-pattern", lambda d: d["macros"].__setitem__(0, {"name": "@m"}))
    mut("empty-dict-item", lambda d: d["pattern"].append({}))
    mut("item-body-is-null", lambda d: d["pattern"].__setitem__(0, {"push": None}))
    mut("list-inside-list", lambda d: d["pattern"].__setitem__(0, ["push"]))
    return out


def run(ctx, factor):
    g, rep = ctx.g, ctx.report
    rep.rule = ("one valid rule (macros, times, $deref, $not, $or) and one listing / one ELF object on which it is found; "
                "each listed fault injected alone (31 structural rule faults, malformed YAML, rule file missing / a "
                "directory, input missing / a directory, macro file missing, objdump absent from PATH, objdump failing on a "
                "non-object file and on an unknown section), in assembly and binary mode, bool and list return modes: the "
                "operation must raise, never return False / []; outcome class compared with the model")
    sc = ctx.scratch
    text = gen.render_listing(BASE_INSTS, g)
    byts = [0x55, 0x48, 0x89, 0xe5, 0xe8, 0, 0, 0, 0, 0x48, 0x8b, 0x4c, 0x98, 0x08, 0x5d, 0xc3]
    obj = objfuzz.assemble(sc, [(".text", byts)], name="c17")
    modes = [dict(mode="first", ret="bool"), dict(mode="all", ret="list")]
    # baseline
    for kw in modes:
        base = impl.run_op(sc, BASE_RULE, text, **kw)
        baseb = impl.run_op(sc, BASE_RULE, None, binary_path=obj, **kw)
        if base not in (("ok", True),) and not (base[0] == "ok" and base[1]):
            raise RuntimeError("fault-free baseline is not 'found': %r" % (base,))
        if not (baseb[0] == "ok" and baseb[1]):
            raise RuntimeError("fault-free binary baseline is not 'found': %r" % (baseb,))

    def judge(name, res, case, model_out=None):
        silent = res[0] == "ok" and res[1] in (False, [], "")
        tags = ["fault:" + name, "outcome:" + (res[1] if res[0] == "err" else "value")]
        if res[0] == "ok":
            rep.violate("fault-not-reported" if silent else "fault-ignored", case, "an error",
                        {"returned": res[1]}, model_agrees_with_spec=(model_out is not None and model_out[0] == "err"))
        if model_out is not None and model_out[0] != "unsup" and (model_out[0] == "ok") != (res[0] == "ok"):
            rep.disagree("T-fault-outcome", case, res, model_out)
        rep.case(case, True, tags=tags)

    for name, doc in rule_faults():
        for kw in modes:
            for binary in (False, True):
                res = impl.run_op(sc, doc, None if binary else text, binary_path=obj if binary else None, **kw)
                rc, out, err = objfuzz.objdump(obj)
                m = model.outcome(ctx.driver.call({"op": "run", "doc": model.y2j(doc), "kind": "binary" if binary else "assembly",
                                                   "text": out if binary else text, "mode": kw["mode"], "addrOnly": False, "ret": kw["ret"]}))
                judge(name, res, {"fault": name, "rule": doc, "input": "binary" if binary else "assembly", "mode": kw}, m)
    # a rule whose verdict needs its address range: wrongly-typed bounds (an unquoted 0x401000 is a YAML integer)
    range_rule = {"config": {"valid_addr_range": {"min": "0x401000", "max": "0x401fff"}}, "pattern": [{"call": ["valid_addr"]}]}
    for kw in modes:
        b2 = impl.run_op(sc, range_rule, text, **kw)
        if not (b2[0] == "ok" and b2[1]):
            raise RuntimeError("fault-free baseline (address range) is not 'found': %r" % (b2,))
    for name, bounds in [("range-bounds-are-integers", {"min": 0x401000, "max": 0x401fff}), ("range-min-is-an-integer", {"min": 4198400, "max": "0x401fff"}),
                         ("range-max-is-null", {"min": "0x401000", "max": None}), ("range-min-is-a-list", {"min": ["0x401000"], "max": "0x401fff"}),
                         ("range-bound-is-a-bool", {"min": "0x401000", "max": True}), ("range-max-missing", {"min": "0x401000"})]:
        doc = copy.deepcopy(range_rule)
        doc["config"]["valid_addr_range"] = bounds
        for kw in modes:
            res = impl.run_op(sc, doc, text, **kw)
            m = model.outcome(ctx.driver.call({"op": "run", "doc": model.y2j(doc), "kind": "assembly", "text": text, "mode": kw["mode"],
                                               "addrOnly": False, "ret": kw["ret"]}))
            judge(name, res, {"fault": name, "rule": doc, "input": "assembly", "mode": kw}, m)
    # file-level faults (rule, macro file, input), environment faults
    good_rule = sc.write(impl.dump_yaml(BASE_RULE), ".yaml")
    good_in = sc.write(text, ".s")
    bad_yaml = sc.write("pattern: [mov\n  - {x\n", ".yaml")
    notobj = sc.write("this is not an object file\n", ".bin")
    empty_rule = sc.write("", ".yaml")
    list_rule = sc.write("- mov\n- ret\n", ".yaml")
    scalar_rule = sc.write("just a string\n", ".yaml")
    empty_input = sc.write("", ".s")
    adir = os.path.join(sc.dir, "adir")
    os.makedirs(adir, exist_ok=True)
    missing = os.path.join(sc.dir, "does-not-exist")
    for kw in modes:
        cases = [
            ("malformed-yaml", dict(rule_path=bad_yaml, input_path=good_in), {"err": 1}, text),
            ("rule-file-missing", dict(rule_path=missing, input_path=good_in), {"err": 1}, text),
            ("rule-file-empty", dict(rule_path=empty_rule, input_path=good_in), None, text),
            ("rule-file-is-a-yaml-list", dict(rule_path=list_rule, input_path=good_in), None, text),
            ("rule-file-is-a-yaml-scalar", dict(rule_path=scalar_rule, input_path=good_in), None, text),
            ("rule-file-is-a-directory", dict(rule_path=adir, input_path=good_in), {"err": 1}, text),
            ("input-file-missing", dict(rule_path=good_rule, input_path=missing), None, None),
            ("input-file-is-a-directory", dict(rule_path=good_rule, input_path=adir), None, None),
            ("binary-missing", dict(rule_path=good_rule, binary_path=missing), None, None),
            ("binary-is-not-an-object", dict(rule_path=good_rule, binary_path=notobj), None, None),
            ("binary-is-a-directory", dict(rule_path=good_rule, binary_path=adir), None, None),
        ]
        for name, paths, docj, t in cases:
            res = impl.run_op(sc, BASE_RULE, None, **paths, **kw)
            special = {"rule-file-empty": None, "rule-file-is-a-yaml-list": ["mov", "ret"], "rule-file-is-a-yaml-scalar": "just a string"}
            if name in special:
                docj = model.y2j(special[name])
            req = {"op": "run", "doc": docj if (docj or name in special) else model.y2j(BASE_RULE), "kind": "binary" if "binary_path" in paths else "assembly",
                   "mode": kw["mode"], "addrOnly": False, "ret": kw["ret"]}
            if t is not None:
                req["text"] = t
            m = model.outcome(ctx.driver.call(req))
            judge(name, res, {"fault": name, "mode": kw}, m)
        # macro file missing
        res = impl.guarded(lambda: __import__("jasm.match", fromlist=["MasterOfPuppets"]).MasterOfPuppets(
            impl.MatchConfig(pattern_pathstr=good_rule, input_file=good_in, return_mode=impl.RET[kw["ret"]],
                             matching_mode=impl.MODE[kw["mode"]], macros=[missing])).perform_matching())
        m = model.outcome(ctx.driver.call({"op": "run", "doc": model.y2j(BASE_RULE), "macroDocs": [{"err": 1}], "kind": "assembly",
                                           "text": text, "mode": kw["mode"], "addrOnly": False, "ret": kw["ret"]}))
        judge("macro-file-missing", res, {"fault": "macro-file-missing", "mode": kw}, m)
        # a listing that cannot be read as text (saved as UTF-16 by a shell redirect, or not a text file at all)
        for fname, raw in (("listing-saved-as-utf16", text.encode("utf-16")), ("listing-is-not-text", bytes([0x7f, 0x45, 0x4c, 0x46, 0xff, 0xfe, 0x80, 0x81, 0xc3, 0x28]) * 40)):
            bad_in = sc.write(raw, ".s", binary=True)
            res = impl.guarded(lambda: impl.MasterOfPuppets(impl.MatchConfig(
                pattern_pathstr=good_rule, input_file=bad_in, input_file_type=impl.InputFileType.assembly,
                return_mode=impl.RET[kw["ret"]], matching_mode=impl.MODE[kw["mode"]])).perform_matching())
            judge(fname, res, {"fault": fname, "mode": kw}, None)
        # unknown section / objdump absent
        doc = copy.deepcopy(BASE_RULE)
        doc["config"]["sections"] = [".nosuch"]
        res = impl.run_op(sc, doc, None, binary_path=obj, **kw)
        judge("unknown-section", res, {"fault": "unknown-section", "rule": doc, "mode": kw},
              model.outcome(ctx.driver.call({"op": "run", "doc": model.y2j(doc), "kind": "binary", "mode": kw["mode"], "addrOnly": False, "ret": kw["ret"]})))
        old = os.environ["PATH"]
        os.environ["PATH"] = adir
        try:
            res = impl.run_op(sc, BASE_RULE, None, binary_path=obj, **kw)
        finally:
            os.environ["PATH"] = old
        judge("objdump-absent-from-PATH", res, {"fault": "objdump-absent-from-PATH", "mode": kw},
              model.outcome(ctx.driver.call({"op": "run", "doc": model.y2j(BASE_RULE), "kind": "binary", "mode": kw["mode"], "addrOnly": False, "ret": kw["ret"]})))


def finding_reproduces(ctx, f):
    text = gen.render_listing(BASE_INSTS, ctx.g)
    for rule in f["witness"]["rules"]:
        r = impl.run_op(ctx.scratch, rule, text, mode="first", ret="bool")
        if r[0] == "ok":
            return True
    return False


def replay(ctx, payload):
    c = payload["case"]
    if "rule" in c:
        text = gen.render_listing(BASE_INSTS, ctx.g)
        return {"implementation": impl.run_op(ctx.scratch, c["rule"], text, mode=c["mode"]["mode"], ret=c["mode"]["ret"])}
    return {"case": c}

"""C07 Matches are instruction-aligned and report genuine addresses."""
import os
import yaml
import gen_rules, patdiff, impl
from props.common_pat import run_cases, blob_tagger, finding_reproduces, replay  # noqa: F401

import enginetie

CONSTS = ("IGNORE_INST_ADDR", "SKIP_TO_END_OF_PATTERN_NODE", "SKIP_TO_END_OF_OPERAND", "IGNORE_NAME_PREFIX",
          "IGNORE_NAME_SUFFIX")
ASSUMPTIONS = ["patterns that can match the empty sequence are excluded (they cover no instruction)",
               "lower-case hexadecimal addresses; records of at most 1000 characters",
               "the shipped @any wildcard crosses instruction boundaries: known finding D6"]
FEATS = {"ops", "logic", "not", "times", "ops_logic", "deref"}


def aligned(ctx, o):
    """checked directly on the implementation's outputs: every reported text is a concatenation of whole
    consecutive records of the stream, in order, and every reported address is that of its first record"""
    mr = o["model"][1]
    if any(n == 0 for _, n in mr["spec"]["scan"]):
        return
    stream = o["impl_stream"][1]
    dec = o["decoded"]
    starts, pos = {}, 0
    for idx, (a, m, ops) in enumerate(dec):
        starts[pos] = idx
        pos += len("%s::%s,%s,|" % (a, m, ",".join(ops)))
    ends = set(list(starts.keys())[1:] + [pos])
    p = 0
    texts = o["impl_all"][1] if o["impl_all"][0] == "ok" else []
    addrs = o["impl_alladdr"][1] if o["impl_alladdr"][0] == "ok" else []
    for t, a in zip(texts, addrs):
        q = stream.find(t, p)
        bad = None
        if t == "" or q < 0:
            bad = "reported text is empty or not part of the stream"
        elif q not in starts:
            bad = "match does not begin at the first character of an instruction record"
        elif q + len(t) not in ends:
            bad = "match does not end at the end of an instruction record"
        elif a != dec[starts[q]][0]:
            bad = "reported address is not the address of the first covered instruction"
        if bad:
            ctx.report.violate("alignment", patdiff.case_of(o), bad, {"text": t, "address": a}, model_agrees_with_spec=None)
            return
        p = q + len(t)
    if len(texts) != len(addrs):
        ctx.report.violate("alignment", patdiff.case_of(o), "same number of texts and addresses", {"texts": texts, "addrs": addrs})


def leading_rule(g):
    doc = gen_rules.rule(g, FEATS, depth=2)
    if g.chance(0.5):
        lead = g.pick(["$not", "$or", "$and", "$and_any_order", "&i"])
        if lead == "$not":
            doc["pattern"].insert(0, {"$not": [gen_rules.inst_pat(g, 1, {"ops", "logic"})]})
        elif lead == "&i":
            doc["pattern"].insert(0, "&i")
        else:
            doc["pattern"].insert(0, {lead: [gen_rules.inst_pat(g, 1, {"ops"}) for _ in range(g.int(1, 2))]})
    return doc


def run(ctx, factor):
    # engine tie T2: the model of the regex engine alone against the real engine (random ASTs of the emitted operator set)
    enginetie.run(ctx, ctx.budget(500, 20000))
    ctx.report.rule = ("random rules with every operator (and an instruction capture) in leading position, 0-3 operand "
                       "items against instructions with 0-4 operands; both match modes; each reported text must be a run "
                       "of whole records of the stream and each address that of its first record (checked on the "
                       "implementation's outputs), and texts/addresses must equal the specification's scan")
    run_cases(ctx, factor, FEATS, 300, 8000, scan=True, rule_fn=leading_rule, modes=("bool", "all", "first", "alladdr"),
              tagger=blob_tagger(["$not", "$or", "&i", "$deref", "times"]), extra_check=aligned)

"""C07 Matches are instruction-aligned and report genuine addresses."""
import os
import yaml
import gen, gen_rules, patdiff, impl
from props.common_pat import run_cases, blob_tagger, finding_reproduces, replay  # noqa: F401

import enginetie

CONSTS = ("IGNORE_INST_ADDR", "SKIP_TO_END_OF_PATTERN_NODE", "SKIP_TO_END_OF_OPERAND", "IGNORE_NAME_PREFIX",
          "IGNORE_NAME_SUFFIX")
ASSUMPTIONS = ["patterns that can match the empty sequence are excluded (they cover no instruction)",
               "lower-case hexadecimal addresses; records of at most 1000 characters",
               "the shipped @any wildcard crosses instruction boundaries: known finding D6"]
FEATS = {"ops", "logic", "not", "times", "ops_logic", "deref"}


def aligned(ctx, o):
    """checked directly on the implementation's outputs: every reported text is a concatenation of whole
    consecutive records of the stream, in order, and every reported address is that of its first record"""
    mr = o["model"][1]
    if any(n == 0 for _, n in mr["spec"]["scan"]):
        return
    stream = o["impl_stream"][1]
    dec = o["decoded"]
    starts, pos = {}, 0
    for idx, (a, m, ops) in enumerate(dec):
        starts[pos] = idx
        pos += len("%s::%s,%s,|" % (a, m, ",".join(ops)))
    ends = set(list(starts.keys())[1:] + [pos])
    p = 0
    texts = o["impl_all"][1] if o["impl_all"][0] == "ok" else []
    addrs = o["impl_alladdr"][1] if o["impl_alladdr"][0] == "ok" else []
    for t, a in zip(texts, addrs):
        q = stream.find(t, p)
        bad = None
        if t == "" or q < 0:
            bad = "reported text is empty or not part of the stream"
        elif q not in starts:
            bad = "match does not begin at the first character of an instruction record"
        elif q + len(t) not in ends:
            bad = "match does not end at the end of an instruction record"
        elif a != dec[starts[q]][0]:
            bad = "reported address is not the address of the first covered instruction"
        if bad:
            ctx.report.violate("alignment", patdiff.case_of(o), bad, {"text": t, "address": a}, model_agrees_with_spec=None)
            return
        p = q + len(t)
    if len(texts) != len(addrs):
        ctx.report.violate("alignment", patdiff.case_of(o), "same number of texts and addresses", {"texts": texts, "addrs": addrs})


def with_noise(g, insts):
    """the listing text with byte-continuation lines, labels and blank lines between the instruction lines"""
    lines = ["", "a.out:     file format elf64-x86-64", "", "", "Disassembly of section .text:", ""]
    for k, i in enumerate(insts):
        if k == 0 or g.chance(0.1):
            lines.append("%016x <f%d>:" % (int(i[0], 16), k))
        lines.append(gen.render_inst(i, g))
        if g.chance(0.35):
            # objdump wraps the bytes of a long instruction: an address and raw bytes, nothing else
            lines.append("%s:\t%s" % (("%x" % (int(i[0], 16) + 7)).rjust(8),
                                       " ".join("%02x" % g.int(0, 255) for _ in range(g.int(1, 4))) + " "))
        if g.chance(0.05):
            lines.append("")
    return "\n".join(lines) + "\n"


def genuine(ctx, n):
    """reported matches against the LISTING (not the implementation's own stream): every covered record must be an
    instruction line of the input, consecutive and in order, and the reported address that of the first; rules with and
    without `valid_addr_range` (a second observer in the consumer's chain), listings with continuation lines"""
    g, rep = ctx.g, ctx.report
    for _ in range(n):
        doc = leading_rule(g)
        if g.chance(0.6):
            doc = dict(doc)
            cfg = dict(doc.get("config") or {})
            cfg["valid_addr_range"] = g.pick([{"min": "0xfffffffffff0", "max": "0xffffffffffff"}, {"min": "0", "max": "0xffffff"}])
            doc["config"] = cfg
        insts = gen_rules.realise(g, doc)
        if g.chance(0.5):
            insts = gen_rules.perturb(g, insts)
        text = with_noise(g, insts)
        seq = [(a, m) for a, m, *_ in insts]
        rule_path = ctx.scratch.write(impl.dump_yaml(doc), ".yaml")
        in_path = ctx.scratch.write(text, ".s")
        kw = dict(rule_path=rule_path, input_path=in_path)
        texts = impl.run_op(ctx.scratch, doc, text, mode="all", ret="list", **kw)
        addrs = impl.run_op(ctx.scratch, doc, text, mode="all", ret="list", addr_only=True, **kw)
        first = impl.run_op(ctx.scratch, doc, text, mode="first", ret="list", addr_only=True, **kw)
        case = {"rule": doc, "listing": text}
        ok = texts[0] == "ok" and addrs[0] == "ok"
        rep.case(case, ok and bool(texts[1]), tags=["genuine-address", "range" if "config" in doc and "valid_addr_range" in doc["config"] else "no-range"])
        if not ok:
            continue
        if any(t == "" for t in texts[1]):
            rep.dist["genuine-address:pattern-matches-the-empty-sequence(outside the quantifier)"] += 1
            continue
        bad = None
        for t, a in zip(texts[1], addrs[1]):
            dec = gen.decode_stream(t)
            if not dec:
                bad = "reported text is not a run of whole records"
                break
            cov = [(x, m) for x, m, _ in dec]
            if not any(seq[k:k + len(cov)] == cov for k in range(len(seq) - len(cov) + 1)):
                bad = "covered records are not consecutive instruction lines of the input"
                break
            if a != cov[0][0]:
                bad = "reported address is not the address of the first covered instruction"
                break
        if bad is None and len(texts[1]) != len(addrs[1]):
            bad = "same number of texts and addresses"
        if bad is None and first[0] == "ok" and first[1] != addrs[1][:1]:
            bad = "first-match address differs from the first element of the all-matches list"
        if bad:
            rep.violate("genuine-address", case, bad, {"texts": texts[1][:5], "addresses": addrs[1][:5],
                        "instruction_lines": seq[:40]}, model_agrees_with_spec=None)
            if rep.has_new() and ctx.tier == "thorough":
                return


def one_record_per_item(ctx, n):
    """a rule of k plain instruction items (no groups, no `times`) - operand names in every notation, the `NNh`
    hexadecimal one included - covers exactly k records per match: no item spans two instructions"""
    g, rep = ctx.g, ctx.report
    for _ in range(n):
        k = g.int(1, 2)
        pat, insts, addr = [], [], 0x401000
        for j in range(k):
            m = g.pick(["mov", "add", "cmp", "and"])
            v = g.pick(["10", "1f", "8", "ff", "20"])
            name = g.pick([v + "h", v + "h", "0x" + v, v])
            other = g.pick(["%eax", "%rbx", "%ecx"])
            shape = g.int(0, 2)
            pat.append({m: [name] if shape == 0 else [name, other] if shape == 1 else [name, g.pick(["eax", "rbx", "ecx", "%e"])]})
            insts.append(("%x" % addr, m, ["$0x" + v, other if shape == 1 else g.pick(["%eax", "%rbx", "%ecx"])]))
            addr += 5
        tail = [(g.pick(["ret", "nop", "leave"]), []), ("mov", ["$0x10", "%edx"]), ("mov", ["%rbx", "%rax"]), ("nop", [])]
        for m, ops in tail[: g.int(1, 4)]:
            insts.append(("%x" % addr, m, ops))
            addr += 2
        if g.chance(0.5):
            insts = insts + [(("%x" % (int(a, 16) + 0x100)), m, o) for a, m, o in insts]
        doc = {"pattern": pat}
        text = gen.render_listing(insts, g)
        texts = impl.run_op(ctx.scratch, doc, text, mode="all", ret="list")
        first = impl.run_op(ctx.scratch, doc, text, mode="first", ret="list")
        case = {"rule": doc, "listing": text}
        ok = texts[0] == "ok" and first[0] == "ok"
        rep.case(case, ok and bool(texts[1]), tags=["one-record-per-item", "k=%d" % k])
        if not ok:
            continue
        for t in list(texts[1]) + list(first[1]):
            dec = gen.decode_stream(t)
            if not dec or len(dec) != k:
                rep.violate("item-spans-more-than-one-instruction", case, {"records_per_match": k},
                            {"match": t, "records": None if not dec else len(dec)}, model_agrees_with_spec=None)
                break
        if rep.has_new() and ctx.tier == "thorough":
            return


def leading_rule(g):
    doc = gen_rules.rule(g, FEATS, depth=2)
    if g.chance(0.5):
        lead = g.pick(["$not", "$or", "$and", "$and_any_order", "&i"])
        if lead == "$not":
            doc["pattern"].insert(0, {"$not": [gen_rules.inst_pat(g, 1, {"ops", "logic"})]})
        elif lead == "&i":
            doc["pattern"].insert(0, "&i")
        else:
            doc["pattern"].insert(0, {lead: [gen_rules.inst_pat(g, 1, {"ops"}) for _ in range(g.int(1, 2))]})
    return doc


def run(ctx, factor):
    # engine tie T2: the model of the regex engine alone against the real engine (random ASTs of the emitted operator set)
    enginetie.run(ctx, ctx.budget(500, 20000))
    ctx.report.rule = ("random rules with every operator (and an instruction capture) in leading position, 0-3 operand "
                       "items against instructions with 0-4 operands; both match modes; each reported text must be a run "
                       "of whole records of the stream and each address that of its first record (checked on the "
                       "implementation's outputs), and texts/addresses must equal the specification's scan")
    run_cases(ctx, factor, FEATS, 300, 8000, scan=True, rule_fn=leading_rule, modes=("bool", "all", "first", "alladdr"),
              tagger=blob_tagger(["$not", "$or", "&i", "$deref", "times"]), extra_check=aligned)
    genuine(ctx, ctx.budget(80, 3000) * factor)
    one_record_per_item(ctx, ctx.budget(40, 1500) * factor)

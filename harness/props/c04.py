"""C04 `$not` consumes exactly one instruction (or operand) at which its argument fails."""
import gen_rules, patdiff
from props.common_pat import run_cases, blob_tagger, finding_reproduces, replay  # noqa: F401

CONSTS = ("IGNORE_INST_ADDR", "SKIP_TO_END_OF_PATTERN_NODE", "SKIP_TO_END_OF_OPERAND", "IGNORE_NAME_PREFIX",
          "IGNORE_NAME_SUFFIX")
ASSUMPTIONS = ["literal names; records of at most 1000 characters"]
FEATS = {"ops", "logic", "not", "times", "ops_logic"}


def not_rule(g):
    """a rule with at least one $not, in leading / inner / trailing / repeated / operand position"""
    doc = gen_rules.rule(g, FEATS, depth=2)
    pos = g.pick(["leading", "inner", "trailing", "operand", "any"])
    x = gen_rules.inst_pat(g, 1, {"ops", "logic"})
    if g.chance(0.15):
        x = {"$not": [x]}                                   # nested: "$not $not X" consumes one instruction at which X holds
    elif g.chance(0.15):
        x = {"$and": [x, gen_rules.inst_pat(g, 0, {"ops"})]}  # an argument spanning several instructions
    n = {"$not": [x]}
    if g.chance(0.25):
        n["times"] = gen_rules.times_obj(g)
    pat = doc["pattern"]
    if pos == "leading":
        pat.insert(0, n)
    elif pos == "trailing":
        pat.append(n)
    elif pos == "inner":
        pat.insert(g.int(0, len(pat)), n)
    elif pos == "operand":
        m = g.pick(gen_rules.LIT_MNEMS)
        ops = [gen_rules.operand_pat(g, 0, {"ops"}) for _ in range(g.int(0, 2))]
        ops.insert(g.int(0, len(ops)), {"$not": [gen_rules.operand_pat(g, 1, {"ops", "ops_logic"})]})
        pat.insert(g.int(0, len(pat)), {m: ops})
    return doc


def operand_not_exactly_one(g):
    """operand-level `$not` followed by a further operand item, on instructions with 2-4 operands: the `$not` must stand
    for exactly ONE operand, so the item after it has to meet the very next operand (near misses: the wanted operand one
    position later, or the `$not` argument holding at the candidate operand)"""
    regs = g.r.sample(["%rax", "%rbx", "%rcx", "%rdx", "%rsi", "%rdi", "%r8"], 4)
    m = g.pick(["imul", "shld", "vaddps", "mov"])
    x, y = regs[0], regs[1]
    lead = g.pick([[], ["$0x3"]])
    doc = {"pattern": [{m: list(lead) + [{"$not": [x.lstrip("%")]}, y.lstrip("%")]}]}
    if g.chance(0.4):
        doc["config"] = {"operands-full-match": False, "mnemonics-full-match": g.chance(0.5)}
    k = g.int(0, 3)
    if k == 0:      # exactly: other, y            -> found
        ops = lead + [regs[2], y]
    elif k == 1:    # one extra operand in between  -> not found
        ops = lead + [regs[2], regs[3], y]
    elif k == 2:    # argument holds at the candidate operand -> not found
        ops = lead + [x, y]
    else:           # further operands after the wanted one -> found
        ops = lead + [regs[2], y, regs[3]]
    insts = [("401000", m, ops), ("401004", "ret", [])]
    return doc, insts, "operand-not-%d" % k


def not_of_group(g):
    """`$not` of a multi-instruction group ($and_any_order, $or, $and), followed by an item: the group must be judged as a
    whole at the candidate instruction - an any-order group in a non-written order still counts as "X matches here" -"""
    a, b, y = g.r.sample(["mov", "push", "pop", "add", "xor", "nop", "sub"], 3)
    if g.chance(0.6):
        y = g.pick([a, b])       # the item after the $not is one of the group's own: the interesting near misses
    op = g.pick(["$and_any_order", "$and_any_order", "$or", "$and"])
    doc = {"pattern": [{"$not": [{op: [a, b]}]}, y]}
    first = g.pick([[a, b], [b, a], [a, a], [b, y], [y, b], [a, y]])
    insts = [("4000", first[0], ["%rax"]), ("4003", y if g.chance(0.6) else first[1], ["%rbx"]), ("4006", first[1], ["%rcx"]), ("4009", y, ["%rdx"])]
    if g.chance(0.6):
        z = g.pick(["leave", "ret", y])
        insts = [("4000", first[0], ["%rax"]), ("4003", first[1], ["%rbx"]), ("4006", z, ["%rcx"] if z == y else [])]
    return doc, insts, "not-of-" + op


def not_of_repeated(g):
    """`$not` whose argument carries its own repetition (`nop` twice, `$or` two to three times): the argument fails at an
    instruction where it matches only once, so `$not` holds there"""
    a, b, y = g.r.sample(["nop", "push", "pop", "add", "xor", "sub"], 3)
    lo = g.pick([2, 2, 3])
    arg = g.pick([{a: {"times": lo}}, {"$or": [a, b], "times": {"min": lo, "max": lo + 1}}, {a: ["%r"], "times": lo}])
    doc = {"pattern": [{"$not": [arg]}, y]}
    run_len = g.pick([1, lo - 1, lo, lo + 1])
    insts = [("7000", "ret", [])] + [("%x" % (0x7001 + i), a, ["%rax"]) for i in range(run_len)] + [("7010", y, ["%rbx"]), ("7013", "ret", [])]
    return doc, insts, "not-of-repeated-argument"


def not_of_capture(ctx, n):
    """`[&i, $not[&i], y]`: the argument of an instruction-level `$not` is an instruction capture that an earlier item
    bound - `$not` holds exactly at an instruction that is NOT the bound one (same mnemonic and operands)"""
    g, rep = ctx.g, ctx.report
    for _ in range(n):
        m = g.pick(["mov", "add", "nop", "xor"])
        ops = [] if m == "nop" else g.r.sample(["%rax", "%rbx", "%rcx", "$0x1"], 2)
        k = g.int(0, 3)
        second = (m, list(ops)) if k == 0 else (m, ops[:1] + ["%rdx"]) if k == 1 and ops else (g.pick(["sub", "inc"]), list(ops)) if k == 2 else (m, ops + ["%rsi"])
        y = g.pick(["ret", "leave", "hlt"])
        name = g.pick(["&i", "&first", "&i1"])
        doc = {"pattern": [name, {"$not": [name]}, y]}
        insts = [("b000", m, ops), ("b004", second[0], second[1]), ("b008", y, [])]
        exp = (second != (m, list(ops)))
        o = patdiff.observe(ctx, doc, insts, modes=("bool", "all"))
        patdiff.correspondence(ctx, o)
        if o.get("impl_bool") is not None and o["impl_bool"] != ("ok", exp):
            mo = o.get("model")
            model_found = bool(mo[1].get("first")) if mo and mo[0] == "ok" else None
            rep.violate("not-of-bound-capture", patdiff.case_of(o), {"found": exp}, {"found": o.get("impl_bool")},
                        model_agrees_with_spec=(model_found == exp) if model_found is not None else None)
        rep.case(patdiff.case_of(o), o.get("impl_bool", ("", ""))[0] == "ok", tags=["not-of-capture-%s" % ("same" if not exp else "other")])
        if rep.has_new() and ctx.tier == "thorough":
            return


def run(ctx, factor):
    rep = ctx.report
    not_of_capture(ctx, ctx.budget(24, 600) * factor)
    for it in range(ctx.budget(45, 1500) * factor):
        doc, insts, tag = not_of_group(ctx.g) if it % 3 else not_of_repeated(ctx.g)
        o = patdiff.observe(ctx, doc, insts, modes=("bool", "all", "first"))
        usable = patdiff.correspondence(ctx, o)
        if usable:
            patdiff.spec_verdict(ctx, o)
            patdiff.spec_scan(ctx, o)
        rep.case(patdiff.case_of(o), usable, tags=[tag])
        if rep.has_new() and factor > 1:
            return
    for _ in range(ctx.budget(40, 1500) * factor):
        doc, insts, tag = operand_not_exactly_one(ctx.g)
        o = patdiff.observe(ctx, doc, insts, modes=("bool", "all", "first"))
        usable = patdiff.correspondence(ctx, o)
        if usable:
            patdiff.spec_verdict(ctx, o)
        rep.case(patdiff.case_of(o), usable, tags=[tag])
        if rep.has_new() and factor > 1:
            return
    ctx.report.rule = ("rules with $not in leading / inner / trailing / repeated / operand position, argument a "
                       "single item or a group spanning 1-3 instructions; listings where the argument holds / fails "
                       "at the candidate instruction (realised + perturbed); verdict and all-matches texts vs the "
                       "specification; non-trivial = reached the specification comparison")
    run_cases(ctx, factor, FEATS, 300, 8000, scan=True, rule_fn=not_rule, tagger=blob_tagger(["$not", "times"]))

"""C12 Boolean, list, first/all and address-only results agree with each other."""
import gen, gen_rules, impl, patdiff
from props.common_pat import blob_tagger, finding_reproduces, replay  # noqa: F401

import enginetie
from props import c05

CONSTS = ()
ASSUMPTIONS = ["matched texts begin with `address::` (C07)"]
FEATS = {"ops", "logic", "times", "not", "ops_logic", "deref"}


def run(ctx, factor):
    # engine tie T2: the model of the regex engine alone against the real engine (random ASTs of the emitted operator set)
    enginetie.run(ctx, ctx.budget(500, 20000))
    g, rep = ctx.g, ctx.report
    rep.rule = ("random rules x listings, each run in all 2x2x2 combinations of return mode, search mode and address-only "
                "flag on the real code; the equations of the property are checked on those outputs directly and every "
                "output is compared with the model's")
    n = ctx.budget(200, 5000) * factor
    for _ in range(n):
        doc = gen_rules.rule(g, FEATS, depth=2)
        if g.chance(0.15):
            doc = c05.spine_rule(g)        # rules with capture groups: the list still holds whole matches in every mode
        insts = gen_rules.realise(g, doc)
        if g.chance(0.4):
            insts = gen_rules.perturb(g, insts)
        if g.chance(0.4):
            insts = insts + gen_rules.realise(g, doc)
        if g.chance(0.12):
            # addresses written with upper-case hex digits (accepted by the listing parser): whatever is matched, the
            # address-only answer must still be the text in front of `::` of the full answer
            insts = [((a[:-3].upper() + a[-3:]) if len(a) > 3 else a.upper(), m, ops) for a, m, ops in insts]
        o = patdiff.observe(ctx, doc, insts, modes=("8",))
        usable = patdiff.correspondence(ctx, o, ties=("T1",))
        tags = []
        if usable:
            mr = o["model"][1]
            im = o["impl_modes"]
            exp = {
                "bool/first/0": bool(mr["first"]), "bool/first/1": bool(mr["first"]),
                "bool/all/0": bool(mr["all"]), "bool/all/1": bool(mr["all"]),
                "list/first/0": mr["first"], "list/all/0": mr["all"],
                "list/first/1": mr["firstAddr"], "list/all/1": mr["allAddr"],
            }
            for k, v in exp.items():
                if im[k] != ("ok", v):
                    rep.disagree("T4-mode-" + k, patdiff.case_of(o), im[k], v)
            # the property's equations on the implementation's own outputs
            case = patdiff.case_of(o)
            if all(v[0] == "ok" for v in im.values()):
                full_all, full_first = im["list/all/0"][1], im["list/first/0"][1]
                addr_all, addr_first = im["list/all/1"][1], im["list/first/1"][1]
                verdicts = {k: v[1] for k, v in im.items() if k.startswith("bool/")}
                eqs = [
                    ("boolean-iff-list-nonempty", all(b == bool(full_all) for b in verdicts.values())),
                    ("first-is-prefix-of-all", full_first == full_all[:1] and addr_first == addr_all[:1]),
                    ("address-only-is-address-prefix", addr_all == [t.split("::")[0] for t in full_all]
                     and all(t.startswith(a + "::") for t, a in zip(full_all, addr_all) if t != "")),
                ]
                for name, ok in eqs:
                    if not ok:
                        rep.violate(name, case, "equation holds", im, model_agrees_with_spec=None)
                tags.append("matches=%d" % min(len(full_all), 4))
            else:
                rep.violate("mode-dependent-error", case, "same outcome class in all modes", im)
            if g.chance(0.3):
                # the eight ways of asking as eight objects that exist at the same time (all constructed, then all run,
                # in a random order): each must answer what it answers when it is constructed and run alone
                combos = [(r, m, a) for r in ("bool", "list") for m in ("first", "all") for a in (False, True)]
                g.r.shuffle(combos)
                bm = impl.run_ops_batch(ctx.scratch, o["doc"], o["text"], combos)
                tags.append("eight-objects-at-once")
                if bm != im:
                    diff = {k: (im[k], bm.get(k)) for k in im if bm.get(k) != im[k]}
                    rep.violate("answer-depends-on-other-objects-of-the-same-rule", case,
                                {k: v[0] for k, v in diff.items()}, {k: v[1] for k, v in diff.items()}, model_agrees_with_spec=None)
        rep.case(patdiff.case_of(o), usable, tags=tags)
        if rep.has_new() and factor > 1:
            return

"""C02 Repetition bounds (`times`) are honoured exactly."""
import copy
import gen, impl
import gen_rules, patdiff
from props.common_pat import run_cases, blob_tagger, finding_reproduces, replay  # noqa: F401

CONSTS = ("IGNORE_INST_ADDR", "IGNORE_NAME_PREFIX", "IGNORE_NAME_SUFFIX", "SKIP_TO_END_OF_PATTERN_NODE",
          "SKIP_TO_END_OF_OPERAND")
ASSUMPTIONS = ["repeated items/groups contain no capture-group definition (C05)",
               "literal names; records of at most 1000 characters"]
FEATS = {"ops", "times", "logic", "not", "ops_logic"}


def unroll(pat):
    """the same pattern with every integer `times: n` (n >= 1) written out n times (top level only)"""
    out = []
    changed = False
    for it in pat:
        t = None
        if isinstance(it, dict):
            key = next(iter(it))
            if "times" in it and len(it) > 1:
                t = it["times"]
                base = {key: it[key]}
            elif isinstance(it[key], dict) and set(it[key].keys()) == {"times"}:
                t = it[key]["times"]
                base = key
        if isinstance(t, int) and not isinstance(t, bool) and t >= 1:
            out += [copy.deepcopy(base) for _ in range(t)]
            changed = True
        else:
            out.append(it)
    return out, changed


def unroll_check(ctx, o):
    """`times: n` and writing the item n times are interchangeable (checked on the implementation)"""
    doc = o["doc"]
    pat, changed = unroll(doc["pattern"])
    if not changed:
        return
    doc2 = dict(doc)
    doc2["pattern"] = pat
    o2 = patdiff.observe(ctx, doc2, text=o["text"], modes=("all",))
    ctx.report.dist["unroll-pairs"] += 1
    if o2.get("impl_all") != o.get("impl_all"):
        ctx.report.violate("times-n-vs-written-n-times", patdiff.case_of(o, {"unrolled_rule": doc2}),
                           {"matches": o.get("impl_all")}, {"matches_of_unrolled": o2.get("impl_all")})


def same_group_twice(g):
    """the same timed group written twice in a row (in the YAML file the second is an alias of the first when the document
    is written with anchors): both occurrences carry their own repetition"""
    a, b = g.r.sample(["push", "pop", "mov", "add", "nop"], 2)
    n = g.pick([2, 2, 3])
    grp = g.pick([{"$or": [a, b], "times": n}, {"$and": [a, b], "times": n}, {a: ["%r"], "times": n}, {"$not": ["ret"], "times": n}])
    doc = {"pattern": ["ret", grp, copy.deepcopy(grp), "ret"]}
    per = 2 if "$and" in grp else 1
    total = g.pick([2 * n * per, 2 * n * per, (2 * n - 1) * per, (n + 1) * per])
    body = [g.pick([a, b]) if "$and" not in grp else [a, b][i % 2] for i in range(total)]
    if a in grp:
        body = [a] * total
    insts = [("6000", "ret", [])] + [("%x" % (0x6001 + 2 * i), m, ["%rax"]) for i, m in enumerate(body)] + [("6100", "ret", [])]
    return doc, insts, "same-timed-group-twice"


def nested_times_gap(g):
    """a group with ONE child, both counted: `$and[x times n]` with `times {p..q}` is p..q repetitions of n x's, so the
    run lengths are the multiples k*n (k in p..q) - NOT every length between p*n and q*n (the two counts do not fold
    into one range)"""
    x, pre, post = g.r.sample(["nop", "mov", "inc", "dec", "push", "pop"], 3)
    n = g.pick([2, 2, 3, {"min": 2, "max": 2}])
    nn = n if isinstance(n, int) else 2
    p = g.pick([0, 1, 1, 2])
    q = p + g.pick([1, 1, 2])
    with_ops = g.chance(0.5)
    child = {x: ["%rax"], "times": n} if with_ops else {x: {"times": n}}
    op = g.pick(["$and", "$and", "$and_any_order", "$or"])
    doc = {"pattern": [pre, {op: [child], "times": {"min": p, "max": q}}, post]}
    total = g.int(max(0, p * nn - 1), q * nn + 1)
    insts = ([("a000", pre, ["%rbx"])] + [("%x" % (0xa001 + 2 * i), x, ["%rax"]) for i in range(total)] +
             [("a100", post, ["%rcx"]), ("a102", "ret", [])])
    return doc, insts, "nested-times-%s" % ("multiple" if total % nn == 0 and p * nn <= total <= q * nn else "gap")


def large_bounds(ctx, n):
    """bounds around and above 1000 (`{min: 2, max: 1000}` is how "at least two" is written - the DSL has no open range):
    the lower bound still holds and an upper bound above 1000 is still an upper bound, in both spellings of `times`"""
    g, rep = ctx.g, ctx.report
    for _ in range(n):
        a, b = g.pick([(2, 1000), (1, 1000), (3, 1500), (1, 1200), (2, 999), (2, 1001), (0, 1000), (5, 2000)])
        x = g.pick(["nop", "inc", "dec"])
        item = g.pick([{x: {"times": {"min": a, "max": b}}}, {x: ["%rax"], "times": {"min": a, "max": b}},
                       {"$or": [x, "hlt"], "times": {"min": a, "max": b}}])
        r = g.pick([0, 1, max(a - 1, 0), a, a + 1, 7] + ([1100, b, b + 1] if b > 1000 and g.chance(0.5) else []))
        insts = ([("10000", "push", ["%rbp"])] + [("%x" % (0x10001 + i), x, ["%rax"]) for i in range(r)] +
                 [("%x" % (0x10001 + r), "ret", [])])
        doc = {"pattern": ["push", item, "ret"]}
        text = gen.render_listing(insts, g)
        got = impl.run_op(ctx.scratch, doc, text, mode="first", ret="bool")
        exp = a <= r <= b
        case = {"rule": doc, "run_length": r, "listing": text if r < 50 else text[:600] + "... (%d x %s)" % (r, x)}
        rep.case(case, got[0] == "ok", tags=["large-bounds", "in" if exp else "out"])
        if got != ("ok", exp):
            rep.violate("bounds-around-1000", case, {"found": exp}, {"found": got}, model_agrees_with_spec=None)
        if rep.has_new() and ctx.tier == "thorough":
            return


def all_optional(ctx, n):
    """a rule all of whose items may be absent (`min: 0`, `times: 0`) is found on every listing, in every way of asking:
    the run of length 0 is within the bounds"""
    g, rep = ctx.g, ctx.report
    for _ in range(n):
        a, b = g.r.sample(["nop", "int3", "hlt", "cld"], 2)
        item = g.pick([{a: {"times": {"min": 0, "max": g.int(1, 3)}}}, {"$or": [a, b], "times": {"min": 0, "max": 2}},
                       {"$or": [a, b], "times": 0}, {a: {"times": 0}}])
        doc = {"pattern": [item] + ([{b: {"times": {"min": 0, "max": 1}}}] if g.chance(0.4) else [])}
        insts = [("8000", "push", ["%rbp"]), ("8001", g.pick(["mov", a]), ["%rsp", "%rbp"] if g.chance(0.7) else []), ("8004", "ret", [])]
        o = patdiff.observe(ctx, doc, insts, modes=("bool", "all", "first"))
        patdiff.correspondence(ctx, o)
        got = {k: o.get(k) for k in ("impl_bool", "impl_all", "impl_first")}
        ok = (got["impl_bool"] == ("ok", True) and got["impl_all"] is not None and got["impl_all"][0] == "ok" and len(got["impl_all"][1]) > 0
              and got["impl_first"] is not None and got["impl_first"][0] == "ok" and len(got["impl_first"][1]) == 1)
        if not ok:
            rep.violate("absent-optional-item-not-found", patdiff.case_of(o), "found in every mode (the empty run is within the bounds)", got,
                        model_agrees_with_spec=None)
        rep.case(patdiff.case_of(o), True, tags=["all-items-optional"])
        if rep.has_new() and ctx.tier == "thorough":
            return


def run(ctx, factor):
    rep = ctx.report
    all_optional(ctx, ctx.budget(16, 300) * factor)
    large_bounds(ctx, ctx.budget(24, 400) * factor)
    for it in range(ctx.budget(50, 1000) * factor):
        doc, insts, tag = same_group_twice(ctx.g) if it % 5 < 3 else nested_times_gap(ctx.g)
        o = patdiff.observe(ctx, doc, insts, modes=("bool", "all", "first"))
        usable = patdiff.correspondence(ctx, o)
        if usable:
            patdiff.spec_verdict(ctx, o)
        rep.case(patdiff.case_of(o), usable, tags=[tag])
        if rep.has_new() and factor > 1:
            return
    ctx.report.rule = ("random rules over items and $and/$or/$not/$and_any_order groups (instruction and operand "
                       "level), each possibly carrying times n / {min,max} in both YAML spellings; listings realised "
                       "with r in [min,max] repetitions then perturbed by one edit (delete/insert/swap instruction, "
                       "change operand/mnemonic); verdict and all-matches texts compared with the denotational "
                       "specification; plus the unrolling metamorphic pair on the implementation; "
                       "non-trivial = reached the specification comparison")
    run_cases(ctx, factor, FEATS, 300, 8000, scan=True, tagger=blob_tagger(["times", "$not", "$or", "$and_any_order", "min"]),
              extra_check=unroll_check)

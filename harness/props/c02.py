"""C02 Repetition bounds (`times`) are honoured exactly."""
import copy
import gen_rules, patdiff
from props.common_pat import run_cases, blob_tagger, finding_reproduces, replay  # noqa: F401

CONSTS = ("IGNORE_INST_ADDR", "IGNORE_NAME_PREFIX", "IGNORE_NAME_SUFFIX", "SKIP_TO_END_OF_PATTERN_NODE",
          "SKIP_TO_END_OF_OPERAND")
ASSUMPTIONS = ["repeated items/groups contain no capture-group definition (C05)",
               "literal names; records of at most 1000 characters"]
FEATS = {"ops", "times", "logic", "not", "ops_logic"}


def unroll(pat):
    """the same pattern with every integer `times: n` (n >= 1) written out n times (top level only)"""
    out = []
    changed = False
    for it in pat:
        t = None
        if isinstance(it, dict):
            key = next(iter(it))
            if "times" in it and len(it) > 1:
                t = it["times"]
                base = {key: it[key]}
            elif isinstance(it[key], dict) and set(it[key].keys()) == {"times"}:
                t = it[key]["times"]
                base = key
        if isinstance(t, int) and not isinstance(t, bool) and t >= 1:
            out += [copy.deepcopy(base) for _ in range(t)]
            changed = True
        else:
            out.append(it)
    return out, changed


def unroll_check(ctx, o):
    """`times: n` and writing the item n times are interchangeable (checked on the implementation)"""
    doc = o["doc"]
    pat, changed = unroll(doc["pattern"])
    if not changed:
        return
    doc2 = dict(doc)
    doc2["pattern"] = pat
    o2 = patdiff.observe(ctx, doc2, text=o["text"], modes=("all",))
    ctx.report.dist["unroll-pairs"] += 1
    if o2.get("impl_all") != o.get("impl_all"):
        ctx.report.violate("times-n-vs-written-n-times", patdiff.case_of(o, {"unrolled_rule": doc2}),
                           {"matches": o.get("impl_all")}, {"matches_of_unrolled": o2.get("impl_all")})


def run(ctx, factor):
    ctx.report.rule = ("random rules over items and $and/$or/$not/$and_any_order groups (instruction and operand "
                       "level), each possibly carrying times n / {min,max} in both YAML spellings; listings realised "
                       "with r in [min,max] repetitions then perturbed by one edit (delete/insert/swap instruction, "
                       "change operand/mnemonic); verdict and all-matches texts compared with the denotational "
                       "specification; plus the unrolling metamorphic pair on the implementation; "
                       "non-trivial = reached the specification comparison")
    run_cases(ctx, factor, FEATS, 300, 8000, scan=True, tagger=blob_tagger(["times", "$not", "$or", "$and_any_order", "min"]),
              extra_check=unroll_check)

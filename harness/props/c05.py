"""C05 Capture groups bind consistently across a pattern."""
import gen_rules, patdiff
from props.common_pat import run_cases, blob_tagger, finding_reproduces, replay  # noqa: F401

CONSTS = ("IGNORE_INST_ADDR", "SKIP_TO_END_OF_PATTERN_NODE", "IGNORE_NAME_PREFIX", "IGNORE_NAME_SUFFIX")
ASSUMPTIONS = [
    "capture definitions (first occurrences) lie on the executed-exactly-once spine of the rule",
    "register-family captures (&genreg, &indreg, &stackreg, &basereg): the first occurrence ignores its width suffix and upper-case suffixes are not recognised (known findings D5, D15); their other clauses are checked",
    "captures under operand-level $or/$and/$and_any_order are outside the checked stream: known finding D13",
]


def spine_rule(g):
    """definitions on the spine (top-level items and their direct operand lists), references anywhere
    at instruction level or directly in operand lists"""
    cfg = {}
    if g.chance(0.4):
        cfg["operands-full-match"] = g.chance(0.5)
    if g.chance(0.3):
        cfg["mnemonics-full-match"] = g.chance(0.5)
    # some name sets contain names that are prefixes / substrings of one another (`&r10` and `&r1`): every name is its own group
    inames, onames = g.pick([(["&i", "&j"], ["&a", "&b", "&c"])] * 3 + [(["&i1", "&i"], ["&r10", "&r1", "&r"]),
                                                                          (["&in", "&n"], ["&ab", "&a", "&b"]),
                                                                          (["&x_1", "&x_12"], ["&c1", "&c10", "&1"])])
    defined = set()
    pat = []

    def operand_list(allow_def):
        ops = []
        for _ in range(g.int(1, 3)):
            k = g.int(0, 9)
            if k < 5:
                cands = onames if allow_def else [n for n in onames if n in defined]
                if cands:
                    n = g.pick(cands)
                    defined.add(n)
                    ops.append(n)
                    continue
            ops.append(g.pick(gen_rules.LIT_OPS))
        return ops

    def ref_item():
        """an item that only *refers* to names defined so far"""
        k = g.int(0, 2)
        if k == 0 and any(n in defined for n in inames):
            return g.pick([n for n in inames if n in defined])
        return {g.pick(gen_rules.LIT_MNEMS): operand_list(False)}

    for _ in range(g.int(2, 5)):
        k = g.int(0, 9)
        if k < 2:
            n = g.pick(inames)
            defined.add(n)
            pat.append(n)
        elif k < 6:
            pat.append({g.pick(gen_rules.LIT_MNEMS): operand_list(True)})
        elif k < 8 and defined:
            op = g.pick(["$or", "$and", "$not", "$and_any_order"])
            if op == "$not":
                node = {"$not": [ref_item()]}
            else:
                node = {op: [ref_item() for _ in range(g.int(1, 2))]}
            if g.chance(0.3):
                node["times"] = g.pick([2, {"min": 0, "max": 2}, {"min": 1, "max": 2}])
            pat.append(node)
        else:
            m = g.pick(gen_rules.LIT_MNEMS)
            if g.chance(0.5):
                # a capture-free item repeated with `times` (either spelling), possibly before the first definition:
                # its repetition wrapper must not disturb the numbering of the capture groups
                t = g.pick([2, 3, {"min": 1, "max": 2}, {"min": 2, "max": 3}])
                pat.append({m: {"times": t}} if g.chance(0.5) else {m: [g.pick(gen_rules.LIT_OPS)], "times": t})
            else:
                pat.append(m)
    doc = {"pattern": pat}
    if cfg:
        doc["config"] = cfg
    return doc


def whole_instruction_cases(g):
    """instruction-level capture used twice: the second instruction is the first one with its trailing operand(s) dropped,
    extended, or identical - only the identical one may match (the name stands for the WHOLE instruction)"""
    m = g.pick(["imul", "shld", "mov", "vaddps"])
    ops = g.r.sample(["$0x10", "%rbx", "%rax", "%rcx", "%xmm1"], g.int(2, 3))
    k = g.int(0, 3)
    second = list(ops) if k == 0 else ops[:-1] if k == 1 else ops[:1] if k == 2 else ops + ["%rdx"]
    mid = [("401004", "nop", [])] if g.chance(0.5) else []
    pat = ["&i"] + (["nop"] if mid else []) + ["&i"]
    insts = [("401000", m, ops)] + mid + [("401008", m, second), ("40100c", "ret", [])]
    if g.chance(0.3):
        insts = [insts[2 if mid else 1]] + mid + [insts[0], insts[-1]]       # short one first
        insts = [("%x" % (0x401000 + 4 * i), mn, o) for i, (_, mn, o) in enumerate(insts)]
    return {"pattern": pat}, insts, "whole-instruction-%d" % k


REGS = {"&genreg": {"64": "r%sx", "32": "e%sx", "16": "%sx", "8h": "%sh", "8l": "%sl", "letters": "abcd"},
        "&indreg": {"64": "r%si", "32": "e%si", "16": "%si", "8l": "%sil", "letters": "sd"},
        "&stackreg": {"64": "rsp", "32": "esp", "16": "sp", "8l": "spl", "letters": "s"},
        "&basereg": {"64": "rbp", "32": "ebp", "16": "bp", "8l": "bpl", "letters": "b"}}


def register_family_cases(g):
    """one register-family name used twice (suffix on the first occurrence or not), the second instruction holding
    the same architectural register at the requested width, or another register of the family.  On the unchanged
    code part of these are the recorded findings D5/D15 (suppressed only where the pinned model shares the defect)."""
    fam = g.pick(["&genreg", "&genreg", "&genreg", "&indreg", "&indreg", "&stackreg", "&basereg"])
    t = REGS[fam]
    widths = [w for w in t if w != "letters"]
    base = fam + g.pick(["", "-1", "-x", ".acc", ".tmp.1", "_2", "-A", "-Acc", ".Tmp"])       # a tag may itself contain dots
    w1, w2 = g.pick(widths + [None]), g.pick(widths)
    n1 = base + ("." + w1 if w1 else "")
    n2 = base + "." + w2
    l1 = g.pick(t["letters"])
    l2 = l1 if g.chance(0.4) or len(t["letters"]) == 1 else g.pick([x for x in t["letters"] if x != l1])

    def reg(w, letter):
        f = t[w or "64"]
        return "%" + (f % letter if "%s" in f else f)
    m1, m2 = g.pick(["mov", "add"]), g.pick(["mov", "xor"])
    doc = {"pattern": [{m1: [n1, "r11"]}, {m2: [n2, "r11"]}]}
    insts = [("1000", m1, [reg(w1, l1), "%r11"]), ("1003", m2, [reg(w2, l2), "%r11d"]), ("1006", "ret", [])]
    return doc, insts, "register-family-%s" % ("same" if l1 == l2 else "other")


def register_width_calls(g):
    """a register family bound at 64 bits by its first occurrence and used again with a width suffix: the later
    occurrence matches exactly the name of the SAME architectural register at THAT width (x86 naming table REGS),
    not another register of the family, not the same register at another width"""
    fam = g.pick(["&genreg", "&genreg", "&indreg", "&indreg", "&stackreg", "&basereg"])
    t = REGS[fam]
    widths = [w for w in t if w != "letters"]
    base = fam + g.pick(["", "-1", "-x", "_2"])
    n1 = base + g.pick(["", ".64"])
    w2 = g.pick(widths)
    l1 = g.pick(t["letters"])
    k = g.int(0, 2)
    l3, w3 = l1, w2
    if k == 1 and len(t["letters"]) > 1:
        l3 = g.pick([x for x in t["letters"] if x != l1])                 # another register of the family, same width
    elif k == 2:
        w3 = g.pick([w for w in widths if w != w2])                       # the same register at another width

    def reg(w, letter):
        f = t[w]
        return "%" + (f % letter if "%s" in f else f)
    m1, m2 = g.pick(["push", "inc"]), g.pick(["mov", "xor", "cmp"])
    second_first = g.chance(0.5)
    ops2 = [n2 := base + "." + w2, "r11"] if second_first else ["r11", n2 := base + "." + w2]
    doc = {"pattern": [{m1: [n1]}, {m2: ops2}]}
    o2 = [reg(w3, l3), "%r11b"] if second_first else ["%r11b", reg(w3, l3)]
    insts = [("1000", m1, [reg("64", l1)]), ("1002", m2, o2), ("1006", "ret", [])]
    exp = (l3 == l1 and w3 == w2)
    if g.chance(0.2):
        # the FIRST occurrence meets a register of ANOTHER family (and the later one follows it consistently): a family
        # name never denotes a register outside its family
        ofam = g.pick([f for f in REGS if f != fam])
        ot = REGS[ofam]
        ol = g.pick(ot["letters"])
        w = w2 if w2 in ot else "64"

        def oreg(width):
            f = ot[width]
            return "%" + (f % ol if "%s" in f else f)
        o2 = [oreg(w), "%r11b"] if second_first else ["%r11b", oreg(w)]
        insts = [("1000", m1, [oreg("64")]), ("1002", m2, o2), ("1006", "ret", [])]
        return doc, insts, False, "register-width-first-occurrence-on-other-family"
    return doc, insts, exp, "register-width-%s-%s" % (w2, "same" if exp else "other-register" if l3 != l1 else "other-width-" + w3)


def register_family_in_deref(g):
    """a register family bound by a plain operand and used again, at 64 bits, as a component of a `$deref`: the memory
    operand must be based on the SAME architectural register"""
    fam = g.pick(["&genreg", "&genreg", "&indreg", "&stackreg", "&basereg"])
    t = REGS[fam]
    base = fam + g.pick(["", "-1", "-mem"])
    n1 = base + g.pick(["", ".64"])
    l1 = g.pick(t["letters"])
    l2 = l1 if g.chance(0.5) or len(t["letters"]) == 1 else g.pick([x for x in t["letters"] if x != l1])

    def r64(letter):
        f = t["64"]
        return "%" + (f % letter if "%s" in f else f)
    field = g.pick(["main_reg", "main_reg", "register_multiplier"])
    if field == "main_reg":
        deref, op = {"main_reg": base + ".64", "constant_offset": "8"}, "0x8(%s)" % r64(l2)
    else:
        deref, op = {"main_reg": "rdi", "register_multiplier": base + ".64", "constant_multiplier": 4}, "(%%rdi,%s,4)" % r64(l2)
    if fam == "&stackreg" and field != "main_reg":
        deref, op = {"main_reg": base + ".64", "constant_offset": "8"}, "0x8(%s)" % r64(l2)      # %rsp cannot be an index
    m1, m2 = g.pick(["push", "inc"]), g.pick(["mov", "lea"])
    doc = {"pattern": [{m1: [n1]}, {m2: [{"$deref": deref}, "r11"]}]}
    other = len(t["letters"]) > 1 and l1 != l2
    insts = [("1000", m1, [r64(l1)]), ("1002", m2, [op, "%r11"]), ("1009", "ret", [])]
    return doc, insts, (not other), "register-family-in-deref-%s" % ("other" if other else "same")


def capture_in_deref(g):
    """two plain operand captures (their names may differ only by a width-like suffix: `&r1` and `&r1.64` are two
    independent names) bound by one instruction; one of them is used again as a component of a `$deref`: the memory
    operand must be based on the text bound to THAT name"""
    n1, n2 = g.pick([("&r1", "&r1.64"), ("&r1.64", "&r1"), ("&a", "&b"), ("&x.32", "&x"), ("&p.8l", "&p.16")])
    r1, r2 = g.r.sample(["%rax", "%rbx", "%rcx", "%rsi"], 2)
    ref = g.pick([n1, n2])
    bound = r1 if ref == n1 else r2
    base = g.pick([bound, bound, r2 if bound == r1 else r1, "%rdi"])
    doc = {"pattern": [{"mov": [n1, n2]}, {"lea": [{"$deref": {"main_reg": ref, "constant_offset": "0x10"}}, "r11"]}]}
    insts = [("1000", "mov", [r1, r2]), ("1003", "lea", ["0x10(%s)" % base, "%r11"]), ("1007", "ret", [])]
    return doc, insts, base == bound, "capture-in-deref-%s" % ("same" if base == bound else "other")


def run(ctx, factor):
    rep = ctx.report
    for it in range(ctx.budget(60, 1500) * factor):
        doc, insts, exp, tag = (register_width_calls(ctx.g) if it % 3 == 0 else register_family_in_deref(ctx.g) if it % 3 == 1
                                else capture_in_deref(ctx.g))
        o = patdiff.observe(ctx, doc, insts, modes=("bool",))
        usable = patdiff.correspondence(ctx, o)
        if o.get("impl_bool") is not None and o["impl_bool"] != ("ok", exp):
            # the recorded register-family findings (D5, D15) cover a violation only where the pinned model shows it too
            mo = o.get("model")
            model_found = bool(mo[1].get("first")) if mo and mo[0] == "ok" else None
            rep.violate("register-width-call" if tag.startswith("register-width") else "register-family-inside-deref", patdiff.case_of(o), {"found": exp}, {"found": o.get("impl_bool")},
                        model_agrees_with_spec=(model_found == exp) if model_found is not None else None)
        rep.case(patdiff.case_of(o), o.get("impl_bool", ("", ""))[0] == "ok", tags=[tag])
        if rep.has_new() and factor > 1:
            break
    for _ in range(ctx.budget(40, 1500) * factor):
        doc, insts, tag = register_family_cases(ctx.g)
        o = patdiff.observe(ctx, doc, insts, modes=("bool", "all", "first"))
        usable = patdiff.correspondence(ctx, o)
        if usable:
            patdiff.spec_verdict(ctx, o)
        rep.case(patdiff.case_of(o), usable, tags=[tag])
        if rep.has_new() and factor > 1:
            break
    for _ in range(ctx.budget(30, 1000) * factor):
        doc, insts, tag = whole_instruction_cases(ctx.g)
        o = patdiff.observe(ctx, doc, insts, modes=("bool", "all", "first"))
        usable = patdiff.correspondence(ctx, o)
        if usable:
            patdiff.spec_verdict(ctx, o)
        rep.case(patdiff.case_of(o), usable, tags=[tag])
        if rep.has_new() and factor > 1:
            return
    ctx.report.rule = ("rules with 1-5 capture names (&i,&j instruction level; &a,&b,&c operand level), definitions on "
                       "the spine in any order of first use, references at top level and inside $or/$and/$not/"
                       "$and_any_order/times groups; listings realised with consistent bindings, then perturbed "
                       "(operand replaced / extended by one character / instructions swapped) so that equal, prefix and "
                       "extension texts occur; verdict and all-matches texts vs the specification")
    run_cases(ctx, factor, None, 350, 8000, scan=True, rule_fn=spine_rule, tagger=blob_tagger(["&i", "&j", "&a", "&b", "&c", "$or", "$not", "times"]))

"""C15 Matching a binary equals matching its `objdump -d -M att` text."""
import glob, os, stat, subprocess
import gen, gen_rules, impl, model, objfuzz

CONSTS = ()
ASSUMPTIONS = ["objdump itself is an uninterpreted external program (same executable on both routes)",
               "process creation, PATH lookup and exit-status handling are runtime behaviour covered by this tie only"]


def shim_dir(ctx):
    """a directory with an `objdump` that logs its arguments and delegates to the real one"""
    d = os.path.join(ctx.scratch.dir, "shim")
    os.makedirs(d, exist_ok=True)
    real = None
    for p in os.environ.get("PATH", "").split(":"):
        c = os.path.join(p, "objdump")
        if os.path.isfile(c) and os.access(c, os.X_OK) and os.path.abspath(p) != os.path.abspath(d):
            real = c
            break
    log = os.path.join(d, "argv.log")
    with open(os.path.join(d, "objdump"), "w") as f:
        f.write("#!/bin/sh\nprintf '%%s\\n' \"$*\" >> %s\nexec %s \"$@\"\n" % (log, real))
    os.chmod(os.path.join(d, "objdump"), 0o755)
    return d, log


def run(ctx, factor):
    g, rep = ctx.g, ctx.report
    rep.rule = ("ELF objects assembled from random code bytes with 1-3 executable sections (and the binaries under "
                "/repo/tests/binary in the thorough tier; an object whose .text is empty and one without any code: objdump prints its banner only; a PE/COFF object and an ar archive) x sections lists (absent, one, several, a name not in the file): "
                "binary route on the real code vs assembly route on the harness's own `objdump -d -M att [-j s]*` output: "
                "same stream, same verdict and addresses for a random rule, same error class when objdump fails; the "
                "argument vector the real code passes to objdump (logged by a PATH shim) vs the model's objdumpArgs")
    d, log = shim_dir(ctx)
    old_path = os.environ["PATH"]
    os.environ["PATH"] = d + ":" + old_path
    try:
        objs = []
        for k in range(ctx.budget(12, 60) * factor):
            nsec = g.int(1, 3)
            names = g.pick([[".text", ".text2", ".init"], [".text", ".text.Hot", "MyCode"], [".text._ZN3FooC1Ev", ".init", ".text"],
                            [".text$hot", ".text", ".text~cold"], [".text", ".text#1", ".text$unlikely"]])[:nsec]
            secs = [(n, objfuzz.random_bytes(g, g.int(8, 120))) for n in names]
            if nsec > 1 and g.chance(0.5):
                secs[1] = (secs[1][0], list(secs[0][1]))      # two sections with identical code: identical lines
            objs.append((objfuzz.assemble(ctx.scratch, secs, name="o%d" % k), names))
        # objects for which objdump legitimately prints its banner only (exit status 0, no `Disassembly of section`):
        # code outside .text with `sections: [.text]` (gas always emits an empty .text), and an object without code
        objs.append((objfuzz.assemble(ctx.scratch, [(".text.hot", objfuzz.random_bytes(g, 24)), ("mycode", objfuzz.random_bytes(g, 16))],
                                      name="fsect"), [".text", ".text.hot", "mycode"]))
        dpath = os.path.join(ctx.scratch.dir, "dataonly.S")
        with open(dpath, "w") as fh:
            fh.write(".data\n.byte 1,2,3,4\n.section .rodata\n.byte 9,9\n")
        subprocess.run(["as", "-o", dpath[:-2] + ".o", dpath], check=True, capture_output=True)
        objs.append((dpath[:-2] + ".o", [".text", ".data"]))
        # an object objdump disassembles completely (exit status 0) while WARNING on stderr: its .note.gnu.property holds a
        # property type this binutils does not know (what an object of a newer toolchain looks like to an older objdump)
        wpath = os.path.join(ctx.scratch.dir, "warned.S")
        with open(wpath, "w") as fh:
            fh.write(".text\nf:\n push %rbp\n mov %rsp,%rbp\n pop %rbp\n ret\n.section .mycode,\"ax\"\ng:\n push %rbx\n pop %rbx\n ret\n"
                     ".section .note.gnu.property,\"a\"\n.align 8\n.long 4\n.long 16\n.long 5\n.asciz \"GNU\"\n.long 0x777\n.long 4\n.long 1\n.long 0\n")
        if subprocess.run(["as", "-o", wpath[:-2] + ".o", wpath], capture_output=True).returncode == 0:
            pr = subprocess.run(["objdump", "-d", "-M", "att", wpath[:-2] + ".o"], capture_output=True, text=True)
            rep.dist["object-with-objdump-warning(rc=%d,stderr=%s)" % (pr.returncode, "yes" if pr.stderr else "no")] += 1
            objs.append((wpath[:-2] + ".o", [".text", ".mycode"]))
        # containers other than ELF that objdump disassembles just as well: a PE/COFF object and a static library
        base = objfuzz.assemble(ctx.scratch, [(".text", objfuzz.random_bytes(g, 30)), (".text.hot", objfuzz.random_bytes(g, 20))], name="forcoff")
        coff = os.path.join(ctx.scratch.dir, "forcoff.obj")
        lib = os.path.join(ctx.scratch.dir, "libfor.a")
        if subprocess.run(["objcopy", "-O", "pe-x86-64", base, coff], capture_output=True).returncode == 0:
            objs.append((coff, [".text", ".text.hot"]))
        if os.path.exists(lib):
            os.remove(lib)
        if subprocess.run(["ar", "rcs", lib, base], capture_output=True).returncode == 0:
            objs.append((lib, [".text", ".text.hot"]))
        if ctx.tier == "thorough":
            for f in sorted(glob.glob(os.path.join(impl.REPO, "tests", "binary", "*"))):
                if os.path.getsize(f) < 50000:       # AesCore, md5sum, smc, smc_eko (the larger ones take minutes each)
                    objs.append((f, [".text", ".init", ".fini", ".plt"]))
        for path, names in objs:
            for secs in ([], [names[0]], names, [".nosuch"], [names[0], ".nosuch"])[: (5 if len(names) > 1 else 4)]:
                cfg = {"sections": secs} if (secs or g.chance(0.5)) else {}
                doc = gen_rules.rule(g, {"ops", "logic"}, nitems=g.int(1, 2), depth=1)
                doc["config"] = dict(doc.get("config") or {}, **cfg)
                open(log, "w").close()
                b = impl.run_op(ctx.scratch, doc, None, ret="stream", binary_path=path)
                argv = open(log).read().strip().split("\n")[-1] if os.path.getsize(log) else None
                ctx.driver.call({"op": "reset"})
                ctx.driver.call({"op": "rule", "doc": model.y2j(doc)})
                margs = ctx.driver.call({"op": "objdumpArgs"})["ok"]
                case = {"object": os.path.basename(path), "object_sections": names, "rule": doc}
                if argv is not None and argv != " ".join(margs + [path]):
                    rep.disagree("T-objdump-args", case, argv, " ".join(margs + [path]))
                exp_args = ["-d", "-M", "att"] + [x for s in secs for x in ("-j", s)]
                if argv is not None and argv != " ".join(exp_args + [path]):
                    rep.violate("objdump-invocation", case, " ".join(exp_args + [path]), argv,
                                model_agrees_with_spec=(margs == exp_args))
                rc, out, err = objfuzz.objdump(path, secs)
                if rc != 0:
                    if b[0] == "ok":
                        rep.violate("objdump-failure-not-reported", case, "an error (objdump exits %d)" % rc, b)
                    rep.case(case, True, tags=["objdump-fails", "sections=%d" % len(secs)])
                    continue
                doc_text = dict(doc)
                doc_text["config"] = {k: v for k, v in doc["config"].items() if k != "sections"}
                t = impl.run_op(ctx.scratch, doc_text, out, ret="stream")
                if b != t:
                    rep.violate("binary-route-differs-from-text-route", case, {"text_route_stream": t}, {"binary_route_stream": b},
                                model_agrees_with_spec=None)
                else:
                    for kw in (dict(mode="all", ret="list", addr_only=True), dict(mode="first", ret="bool")):
                        rb = impl.run_op(ctx.scratch, doc, None, binary_path=path, **kw)
                        rt = impl.run_op(ctx.scratch, doc_text, out, **kw)
                        if rb != rt:
                            rep.violate("binary-route-differs-from-text-route", dict(case, mode=kw), {"text_route": rt}, {"binary_route": rb})
                    m = model.outcome(ctx.driver.call({"op": "run", "doc": model.y2j(doc), "kind": "binary", "text": out,
                                                       "objdumpArgs": exp_args, "mode": "first", "addrOnly": False, "ret": "stream"}))
                    if m[0] != "unsup" and m != b and not (m[0] == b[0] == "err"):
                        rep.disagree("T4-binary-route", case, b if b[0] != "ok" else b[1][:300], m if m[0] != "ok" else m[1][:300])
                rep.case(case, b[0] == "ok" and bool(b[1]), tags=["sections=%d" % len(secs), "object-sections=%d" % len(names)])
            if rep.has_new() and factor > 1:
                return
        # executables linked at low and at very high addresses (no leading blanks before a 16-digit address)
        for k in range(ctx.budget(4, 40) * factor):
            o = objfuzz.assemble(ctx.scratch, [(".text", objfuzz.random_bytes(g, g.int(8, 60)))], name="tolink")
            exe = objfuzz.link(ctx.scratch, o, [0xffffffff81000000, 0x401000, 0x7000000000000000, 0x10000000][k % 4], name="linked%d" % k)
            if exe is None:
                rep.dist["link-failed"] += 1
                continue
            doc = {"pattern": ["nop"]}
            if g.chance(0.5):
                doc["config"] = {"sections": [".text"]}
            b = impl.run_op(ctx.scratch, doc, None, ret="stream", binary_path=exe)
            rc, out, err = objfuzz.objdump(exe, (doc.get("config") or {}).get("sections", ()))
            doc_text = {"pattern": ["nop"]}
            t = impl.run_op(ctx.scratch, doc_text, out, ret="stream") if rc == 0 else None
            case = {"object": "executable linked with ld -Ttext", "round": k, "rule": doc, "listing_head": out[:400] if rc == 0 else err[:200]}
            if t is not None and b != t:
                rep.violate("binary-route-differs-from-text-route", case, {"text_route_stream": t if t[0] != "ok" else t[1][:300]},
                            {"binary_route_stream": b if b[0] != "ok" else b[1][:300]})
            rep.case(case, b[0] == "ok" and bool(b[1]), tags=["linked-executable"])
        # the same PATH holding different objects one after the other: the disassembly must be of what is there now
        for k in range(ctx.budget(3, 30) * factor):
            secs = [(".text", objfuzz.random_bytes(g, g.int(8, 60)))]
            path = objfuzz.assemble(ctx.scratch, secs, name="reused")
            doc = {"pattern": ["nop"]}
            b = impl.run_op(ctx.scratch, doc, None, ret="stream", binary_path=path)
            rc, out, err = objfuzz.objdump(path)
            t = impl.run_op(ctx.scratch, doc, out, ret="stream") if rc == 0 else None
            case = {"object": "reused.o (rewritten before every operation)", "round": k}
            if t is not None and b != t:
                rep.violate("binary-route-differs-from-text-route", case, {"text_route_stream": t}, {"binary_route_stream": b})
            rep.case(case, b[0] == "ok" and bool(b[1]), tags=["reused-path"])
        # the object is named the way the user names it: relative paths, names that begin with a dash protected by `./`
        cwd0 = os.getcwd()
        try:
            os.chdir(ctx.scratch.dir)
            for name in ("./-O2.o", "./plain.o", "sub/../-w", "./-j"):
                base = objfuzz.assemble(ctx.scratch, [(".text", objfuzz.random_bytes(g, g.int(8, 40)))], name="named")
                dest = os.path.normpath(os.path.join(ctx.scratch.dir, name))
                os.makedirs(os.path.join(ctx.scratch.dir, "sub"), exist_ok=True)
                import shutil
                shutil.copyfile(base, dest)
                doc = {"pattern": ["nop"]}
                b = impl.run_op(ctx.scratch, doc, None, ret="stream", binary_path=name)
                p = subprocess.run(["objdump", "-d", "-M", "att", name], capture_output=True, text=True)
                t = impl.run_op(ctx.scratch, doc, p.stdout, ret="stream") if p.returncode == 0 else None
                case = {"object": name, "cwd": "scratch directory"}
                if t is not None and b != t:
                    rep.violate("binary-route-differs-from-text-route", case, {"text_route_stream": t if t[0] != "ok" else t[1][:300]},
                                {"binary_route_stream": b if b[0] != "ok" else b[1][:300]})
                rep.case(case, b[0] == "ok", tags=["relative-path"])
                os.remove(dest)
        finally:
            os.chdir(cwd0)
    finally:
        os.environ["PATH"] = old_path


def finding_reproduces(ctx, f):
    return None


def replay(ctx, payload):
    return {"note": "objects are generated from the seed; re-run the check with the same VERIF_SEED", "case": payload.get("case")}

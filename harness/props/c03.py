"""C03 `$or`, `$and`, `$and_any_order` compose as alternation, sequence, permutation."""
import copy
import gen_rules, patdiff
from props.common_pat import run_cases, blob_tagger, finding_reproduces, replay  # noqa: F401

CONSTS = ("IGNORE_INST_ADDR", "IGNORE_NAME_PREFIX", "IGNORE_NAME_SUFFIX", "SKIP_TO_END_OF_PATTERN_NODE",
          "OPTIONAL_PERCENTAGE_CHAR", "OPTIONAL_HEX_CHAR")
ASSUMPTIONS = ["literal names; no captures inside the operators (C05); records of at most 1000 characters"]
FEATS = {"ops", "logic", "ops_logic", "deref", "deref_logic"}


def or_split_check(ctx, o):
    """`a, $or[b,c], d` is `a b d` or `a c d`, nothing else (checked on the implementation)"""
    doc = o["doc"]
    pat = doc["pattern"]
    for idx, it in enumerate(pat):
        if isinstance(it, dict) and next(iter(it)) == "$or" and len(it) == 1:
            verdicts = []
            for alt in it["$or"]:
                d2 = dict(doc)
                d2["pattern"] = pat[:idx] + [copy.deepcopy(alt)] + pat[idx + 1:]
                o2 = patdiff.observe(ctx, d2, text=o["text"], modes=("bool",))
                verdicts.append(o2.get("impl_bool"))
            ctx.report.dist["or-split-pairs"] += 1
            exp = ("ok", any(v == ("ok", True) for v in verdicts))
            if all(v[0] == "ok" for v in verdicts) and o.get("impl_bool") != exp:
                ctx.report.violate("or-is-union-of-alternatives", patdiff.case_of(o, {"or_position": idx}),
                                   {"found": exp, "alternatives": verdicts}, {"found": o.get("impl_bool")})
            return


def run(ctx, factor):
    ctx.report.rule = ("random nestings (depth <= 3) of $or/$and/$and_any_order at instruction level, operand "
                       "level and inside $deref fields; listings realise one alternative / one ordering, then one "
                       "perturbation; verdict and all-matches texts vs the specification; plus the or-split "
                       "metamorphic check on the implementation; non-trivial = reached the specification comparison")
    run_cases(ctx, factor, FEATS, 300, 8000, scan=True, depth=3,
              tagger=blob_tagger(["$or", "$and_any_order", "$and\"", "$deref"]), extra_check=or_split_check)

"""C03 `$or`, `$and`, `$and_any_order` compose as alternation, sequence, permutation."""
import copy
import gen_rules, patdiff
from props.common_pat import run_cases, blob_tagger, finding_reproduces, replay  # noqa: F401

CONSTS = ("IGNORE_INST_ADDR", "IGNORE_NAME_PREFIX", "IGNORE_NAME_SUFFIX", "SKIP_TO_END_OF_PATTERN_NODE",
          "OPTIONAL_PERCENTAGE_CHAR", "OPTIONAL_HEX_CHAR")
ASSUMPTIONS = ["literal names; no captures inside the operators (C05); records of at most 1000 characters"]
FEATS = {"ops", "logic", "ops_logic", "deref", "deref_logic"}


def or_split_check(ctx, o):
    """`a, $or[b,c], d` is `a b d` or `a c d`, nothing else (checked on the implementation)"""
    doc = o["doc"]
    pat = doc["pattern"]
    for idx, it in enumerate(pat):
        if isinstance(it, dict) and next(iter(it)) == "$or" and len(it) == 1:
            verdicts = []
            for alt in it["$or"]:
                d2 = dict(doc)
                d2["pattern"] = pat[:idx] + [copy.deepcopy(alt)] + pat[idx + 1:]
                o2 = patdiff.observe(ctx, d2, text=o["text"], modes=("bool",))
                verdicts.append(o2.get("impl_bool"))
            ctx.report.dist["or-split-pairs"] += 1
            exp = ("ok", any(v == ("ok", True) for v in verdicts))
            if all(v[0] == "ok" for v in verdicts) and o.get("impl_bool") != exp:
                ctx.report.violate("or-is-union-of-alternatives", patdiff.case_of(o, {"or_position": idx}),
                                   {"found": exp, "alternatives": verdicts}, {"found": o.get("impl_bool")})
            return


def perm_split_check(ctx, o):
    """`$and_any_order[c1..cn]` is the `$or` of the `$and`s of its orderings, nothing else (checked on the
    implementation: the two rules must give the same verdict, whatever else the rule contains)"""
    import itertools
    doc = o["doc"]
    pat = doc["pattern"]
    for idx, it in enumerate(pat):
        if isinstance(it, dict) and next(iter(it)) == "$and_any_order" and len(it) == 1 and 2 <= len(it["$and_any_order"]) <= 3:
            alts = [{"$and": [copy.deepcopy(c) for c in p]} for p in itertools.permutations(it["$and_any_order"])]
            d2 = dict(doc)
            d2["pattern"] = pat[:idx] + [{"$or": alts}] + pat[idx + 1:]
            o2 = patdiff.observe(ctx, d2, text=o["text"], modes=("bool",))
            ctx.report.dist["any-order-split-pairs"] += 1
            v1, v2 = o.get("impl_bool"), o2.get("impl_bool")
            if v1 and v2 and v1[0] == "ok" and v2[0] == "ok" and v1 != v2:
                ctx.report.violate("any-order-is-or-of-orderings", patdiff.case_of(o, {"any_order_position": idx}),
                                   {"found": v2, "as": "$or of the $and of every ordering"}, {"found": v1})
            return


def any_order_with_captures(g):
    """an any-order group next to items that define and re-use captures: the group is still a permutation of its
    children and the captures still refer to their own operands (no group of the operator is counted as a capture)"""
    a, b, c = g.r.sample(["push", "pop", "nop", "inc", "dec", "xor"], 3)
    kids = [a, b] if g.chance(0.7) else [a, b, c]
    regs = g.r.sample(["%rax", "%rbx", "%rcx", "%rdx"], 2)
    cap_item = {"mov": ["&r", "&r"]}
    group = {"$and_any_order": list(kids)}
    shape = g.int(0, 2)
    if shape == 0:
        pat = [group, cap_item]
    elif shape == 1:
        pat = [{"lea": ["&q"]}, group, cap_item]
    else:
        pat = [group, {"add": ["&r"]}, {"sub": ["&r"]}]
    order = list(kids)
    g.r.shuffle(order)
    same = g.chance(0.7)
    r1, r2 = regs[0], (regs[0] if same else regs[1])
    body = [(m, ["%rsi"]) for m in order]
    if shape == 0:
        seq = body + [("mov", [r1, r2])]
    elif shape == 1:
        seq = [("lea", ["%rdi"])] + body + [("mov", [r1, r2])]
    else:
        seq = body + [("add", [r1]), ("sub", [r2])]
    insts = [("%x" % (0x7000 + 2 * i), m, ops) for i, (m, ops) in enumerate(seq)]
    return {"pattern": pat}, insts, "any-order-with-captures"


def timed_and_operator_first(g):
    """`$and` with `times`, its first child an operator ($or / $and_any_order / $and / a counted item) and its last a plain
    item: the WHOLE sequence is repeated, whatever the first child's own grouping looks like"""
    a, b, c, z = g.r.sample(["push", "pop", "nop", "inc", "dec", "xor", "ret"], 4)
    first = g.pick([{"$or": [a, b]}, {"$and_any_order": [a, b]}, {"$and": [a, b]}, {a: {"times": {"min": 1, "max": 2}}}])
    n = g.pick([2, 2, 3, {"min": 1, "max": 2}])
    doc = {"pattern": [{"$and": [first, c], "times": n}, z]}
    if g.chance(0.4):
        doc["config"] = {"mnemonics-full-match": True}
    reps = n if isinstance(n, int) else 2
    body = []
    for r in range(reps):
        k = next(iter(first))
        head = [g.pick([a, b])] if k == "$or" else (g.pick([[a, b], [b, a]]) if k == "$and_any_order" else [a, b] if k == "$and" else [a] * g.int(1, 2))
        body += head + [c]
    mut = g.int(0, 3)
    if mut == 1 and len(body) > 2:
        del body[len(body) // 2]                       # one instruction of a middle repetition missing
    elif mut == 2:
        body = body[: len(body) - 1] + [c, c]         # the last item twice instead of the sequence twice
    insts = [("%x" % (0xc000 + 3 * i), m, ["%rax"] if m not in ("ret", "nop") else []) for i, m in enumerate(body + [z])]
    return doc, insts, "timed-and-operator-first"


def prefix_alternatives(g):
    """`$or` whose alternatives match a prefix of one another, followed by a continuation that fits only after the
    longer one: alternation must be able to come back to a later alternative (no atomic/possessive grouping)"""
    m = g.r.sample(["mov", "add", "nop", "push", "lea", "xor"], 3)
    regs = g.r.sample(["%rax", "%rbx", "%rcx", "%rdx", "%rsi"], 3)
    kind = g.int(0, 2)
    if kind == 0:        # instruction level: x | (x y), then z          on  x y z
        alts = [m[0], {"$and": [m[0], m[1]]}]
        if g.chance(0.5):
            alts.reverse()
        doc = {"pattern": [{"$or": alts}, m[2]]}
        insts = [("%x" % (0x1000 + 3 * i), mn, [g.pick(regs)]) for i, mn in enumerate(m)]
    elif kind == 1:      # operand level: a | (a b), then c               on  op a,b,c
        alts = [regs[0], {"$and": [regs[0], regs[1]]}]
        if g.chance(0.5):
            alts.reverse()
        doc = {"pattern": [{m[0]: [{"$or": alts}, regs[2]]}]}
        insts = [("1000", m[0], list(regs))]
    else:                # inside a $deref field: 0x1 | 0x10               on  0x10(%rsp)
        offs = ["0x1", "0x10"]
        if g.chance(0.5):
            offs.reverse()
        doc = {"pattern": [{m[0]: [{"$deref": {"main_reg": "rsp", "constant_offset": {"$or": offs}}}, regs[0]]}]}
        insts = [("1000", m[0], ["[%rsp+0x10]", regs[0]])]
    if g.chance(0.3):
        doc["config"] = {"operands-full-match": True, "mnemonics-full-match": g.chance(0.5)}
    return doc, insts, "prefix-alternatives-%d" % kind


def nested_any_order(g):
    """`$and_any_order[X, $and_any_order[Y, Z]]`: the inner group stays together (X Y Z, X Z Y, Y Z X, Z Y X), the outer
    child never sits between the inner ones - the operator is not associative"""
    import itertools
    if g.chance(0.5):
        x, y, z = g.r.sample(["mov", "add", "nop", "push", "pop", "xor"], 3)
        order = list(g.pick(list(itertools.permutations([x, y, z]))))
        inner = {"$and_any_order": [y, z]}
        kids = [x, inner] if g.chance(0.5) else [inner, x]
        doc = {"pattern": ["ret", {"$and_any_order": kids}, "leave"]}
        insts = [("1000", "ret", [])] + [("%x" % (0x1001 + i), mn, ["%rax"]) for i, mn in enumerate(order)] + [("1009", "leave", [])]
        return doc, insts, "nested-any-order-inst"
    x, y, z = g.r.sample(["%xmm0", "%xmm1", "%xmm2", "%rax", "%rbx"], 3)
    order = list(g.pick(list(itertools.permutations([x, y, z]))))
    inner = {"$and_any_order": [y.lstrip("%"), z.lstrip("%")]}
    kids = [x.lstrip("%"), inner] if g.chance(0.5) else [inner, x.lstrip("%")]
    doc = {"pattern": [{"vfmadd231ss": [{"$and_any_order": kids}]}]}
    return doc, [("1000", "vfmadd231ss", order), ("1005", "ret", [])], "nested-any-order-operand"


def sibling_any_order(g):
    """two `$and_any_order` groups side by side (or one per rule of consecutive compilations): each group permutes its
    OWN children only; a window made of one group's children twice must not be found"""
    a, b, c, d = g.r.sample(["mov", "add", "nop", "push", "pop", "xor", "inc", "dec"], 4)
    if g.chance(0.5):
        doc = {"pattern": [{"$and_any_order": [a, b]}, {"$and_any_order": [c, d]}]}
        win = g.pick([[a, b, b, a], [b, a, a, b], [a, b, d, c], [b, a, c, d], [c, d, a, b], [a, b, c, c]])
        insts = [("%x" % (0x2000 + 2 * i), mn, ["%rax"] if mn not in ("nop",) else []) for i, mn in enumerate(win)]
        return doc, insts, "sibling-any-order-inst"
    x, y, z, w = g.r.sample(["rax", "rbx", "rcx", "rdx", "rsi", "rdi"], 4)
    doc = {"pattern": [{"vpinsrq": [{"$and_any_order": [x, y]}, {"$and_any_order": [z, w]}]}]}
    ops = g.pick([[x, y, y, x], [y, x, w, z], [x, y, z, w], [z, w, x, y], [x, y, z, z]])
    return doc, [("2000", "vpinsrq", ["%" + r for r in ops]), ("2006", "ret", [])], "sibling-any-order-operand"


def and_in_any_order(g):
    """`$and_any_order[$and[A, B], C]`: the sequence stays together and in its written order (A B C, C A B only); the other
    four arrangements of the three are near misses.  Also with `$or` / a macro-like one-element `$and` as the inner group."""
    import itertools
    if g.chance(0.5):
        a, b, c = g.r.sample(["mov", "add", "nop", "push", "pop", "xor", "sub"], 3)
        inner = {"$and": [a, b]}
        kids = [inner, c] if g.chance(0.5) else [c, inner]
        order = list(g.pick(list(itertools.permutations([a, b, c]))))
        doc = {"pattern": ["ret", {"$and_any_order": kids}, "leave"]}
        insts = [("3000", "ret", [])] + [("%x" % (0x3001 + i), mn, ["%rax"]) for i, mn in enumerate(order)] + [("3009", "leave", [])]
        return doc, insts, "and-in-any-order-inst"
    x, y, z = g.r.sample(["xmm0", "xmm1", "xmm2", "rax", "rbx"], 3)
    inner = {"$and": [x, y]}
    kids = [inner, z] if g.chance(0.5) else [z, inner]
    order = list(g.pick(list(itertools.permutations([x, y, z]))))
    doc = {"pattern": [{"vpaddd": [{"$and_any_order": kids}]}]}
    return doc, [("3000", "vpaddd", ["%" + r for r in order]), ("3005", "ret", [])], "and-in-any-order-operand"


def repeated_any_order(g):
    """`$and_any_order[a, b]` with `times: n`: every repetition chooses its own order (a b b a is two repetitions)"""
    a, b = g.r.sample(["mov", "add", "nop", "push", "pop", "xor", "inc"], 2)
    n = g.pick([2, 2, 3])
    t = g.pick([n, {"min": 1, "max": n}, {"min": n, "max": n}])
    doc = {"pattern": ["ret", {"$and_any_order": [a, b], "times": t}, "leave"]}
    reps = [g.pick([[a, b], [b, a]]) for _ in range(n)]
    if g.chance(0.3):
        reps[g.int(0, n - 1)] = g.pick([[a, a], [b, b]])          # near miss: one repetition uses a child twice
    body = [m for r in reps for m in r]
    insts = [("5000", "ret", [])] + [("%x" % (0x5001 + i), m, ["%rax"]) for i, m in enumerate(body)] + [("5010", "leave", [])]
    return doc, insts, "repeated-any-order"


def nested_or_with_range(g):
    """`$or` directly inside `$or`, the inner one repeated: `$or[x, $or[a, b] times {1..3}]` is x, or one to three
    instructions each of which is a or b - the inner repetition is not lost by the nesting"""
    x, a, b = g.r.sample(["ret", "nop", "int3", "hlt", "cld", "leave"], 3)
    t = g.pick([{"min": 1, "max": 3}, {"min": 1, "max": 2}, 2, {"min": 2, "max": 3}])
    inner = {"$or": [a, b], "times": t}
    kids = [x, inner] if g.chance(0.5) else [inner, x]
    doc = {"pattern": ["push", {"$or": kids}, "pop"]}
    mid = g.pick([[a, b], [b, a], [a, a], [a], [x], [a, b, a], [x, a], [a, b, b, a]])
    insts = [("9000", "push", ["%rbp"])] + [("%x" % (0x9001 + i), m, []) for i, m in enumerate(mid)] + [("9010", "pop", ["%rbp"])]
    return doc, insts, "nested-or-with-range"


def run(ctx, factor):
    ctx.report.rule = ("random nestings (depth <= 3) of $or/$and/$and_any_order at instruction level, operand "
                       "level and inside $deref fields; listings realise one alternative / one ordering, then one "
                       "perturbation; verdict and all-matches texts vs the specification; plus the or-split "
                       "metamorphic check on the implementation; non-trivial = reached the specification comparison")
    rep = ctx.report
    for it in range(ctx.budget(72, 3000) * factor):
        doc, insts, tag = (any_order_with_captures(ctx.g) if it % 8 == 7 else timed_and_operator_first(ctx.g) if it % 8 == 3 else
                           sibling_any_order(ctx.g) if it % 6 in (0, 1) else and_in_any_order(ctx.g) if it % 6 == 2 else
                           repeated_any_order(ctx.g) if it % 6 == 3 else nested_or_with_range(ctx.g) if it % 12 == 4 else
                           prefix_alternatives(ctx.g) if it % 3 else nested_any_order(ctx.g))
        o = patdiff.observe(ctx, doc, insts, modes=("bool", "all", "first"))
        usable = patdiff.correspondence(ctx, o)
        if usable:
            if tag != "any-order-with-captures":
                patdiff.spec_verdict(ctx, o)
            or_split_check(ctx, o)
        if tag == "any-order-with-captures" or it % 5 == 0:
            perm_split_check(ctx, o)
        rep.case(patdiff.case_of(o), usable, tags=[tag])
        if rep.has_new() and factor > 1:
            return
    run_cases(ctx, factor, FEATS, 300, 8000, scan=True, depth=3,
              tagger=blob_tagger(["$or", "$and_any_order", "$and\"", "$deref"]), extra_check=or_split_check)

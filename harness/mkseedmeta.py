#!/usr/bin/env python3
"""mkseedmeta.py <seed-id> <Cxx> <needs-to-manifest> [strengthening]  -- writes seeded/<id>/meta.json from seeded/<id>/run.txt"""
import json, os, re, sys
sid, prop, needs = sys.argv[1:4]
strength = sys.argv[4] if len(sys.argv) > 4 else None
d = os.path.join(os.path.dirname(os.path.abspath(__file__)), "..", "seeded", sid)
log = open(os.path.join(d, "run.txt")).read()
caught = [m.group(1) for m in re.finditer(r"^(C\d\d): .*VIOLATION", log, re.M)]
meta = {"id": sid, "breaks_property": prop, "needs_to_manifest": needs,
        "source": "independent sub-agent given only the property text, the list of inputs the earlier seeds of the same property needed (to avoid them) and a scratch worktree",
        "confirmed": "suite unchanged (129 passed, same 3 always-failing); demo exits 1 with the change, 0 without (harness/seedtest.sh)",
        "caught_by_quick_checks": caught, "run_log": log}
if strength:
    meta["strengthening"] = strength
json.dump(meta, open(os.path.join(d, "meta.json"), "w"), indent=1)
print(sid, prop, "caught by", caught)

"""Client of the Lean model driver (line protocol, JSON)."""
import json, os, subprocess, sys

HERE = os.path.dirname(os.path.abspath(__file__))
DRIVER = os.path.join(HERE, "..", "lean", ".lake", "build", "bin", "jasmdriver")


def y2j(y):
    """Python value as produced by yaml.safe_load -> transport JSON (ordered dicts as pair lists)."""
    if isinstance(y, dict):
        return {"d": [[y2j(k), y2j(v)] for k, v in y.items()]}
    if isinstance(y, (list, tuple)):
        return [y2j(v) for v in y]
    if isinstance(y, bool) or y is None or isinstance(y, (int, str)):
        return y
    if isinstance(y, float):
        return {"f": repr(y)}
    return {"f": "opaque:" + type(y).__name__}


def j2y(j):
    if isinstance(j, dict):
        if "d" in j:
            return {j2y(k): j2y(v) for k, v in j["d"]}
        return float(j["f"])
    if isinstance(j, list):
        return [j2y(v) for v in j]
    return j


TIMEOUT_S = float(os.environ.get("VERIF_MODEL_TIMEOUT", "120"))
TIMEOUTS = []          # requests on which the model driver did not answer in time (reported as "unsupported by the model")


class Driver:
    def __init__(self):
        self.p = subprocess.Popen([DRIVER], stdin=subprocess.PIPE, stdout=subprocess.PIPE, text=True, bufsize=1)
        self.requests = 0

    def call(self, req):
        """One request, one reply.  The model's regex engine enumerates ALL results of a match (that is what the theorems
        are about) and can take exponentially long on a rule the real engine answers at once; a request that is not
        answered within TIMEOUT_S is abandoned: the driver is restarted and the case counts as unsupported by the model
        (never as a disagreement - nothing was compared)."""
        import select
        self.requests += 1
        self.p.stdin.write(json.dumps(req) + "\n")
        self.p.stdin.flush()
        ready, _, _ = select.select([self.p.stdout], [], [], TIMEOUT_S)
        if not ready:
            self.p.kill()
            self.p.wait()
            TIMEOUTS.append(json.dumps(req)[:2000])
            try:
                with open(os.path.join(HERE, "..", "replays", "model-timeout-last.json"), "w") as fh:
                    fh.write(json.dumps(req))
            except OSError:
                pass
            self.p = subprocess.Popen([DRIVER], stdin=subprocess.PIPE, stdout=subprocess.PIPE, text=True, bufsize=1)
            return {"unsup": "model driver did not answer within %d s" % TIMEOUT_S}
        line = self.p.stdout.readline()
        if not line:
            raise RuntimeError("model driver died on request: " + json.dumps(req)[:500])
        rep = json.loads(line)
        if "bad" in rep:
            raise RuntimeError("model driver rejected request (%s): %s" % (rep["bad"], json.dumps(req)[:500]))
        return rep

    def close(self):
        try:
            self.p.stdin.close()
            self.p.wait(timeout=5)
        except Exception:
            self.p.kill()


def outcome(rep):
    """Canonical outcome of a model reply: ('ok', value) | ('err',) | ('unsup', msg)."""
    if "ok" in rep:
        return ("ok", rep["ok"])
    if "err" in rep:
        return ("err", rep["err"])
    return ("unsup", rep.get("unsup"))

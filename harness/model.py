"""Client of the Lean model driver (line protocol, JSON)."""
import json, os, subprocess, sys

HERE = os.path.dirname(os.path.abspath(__file__))
DRIVER = os.path.join(HERE, "..", "lean", ".lake", "build", "bin", "jasmdriver")


def y2j(y):
    """Python value as produced by yaml.safe_load -> transport JSON (ordered dicts as pair lists)."""
    if isinstance(y, dict):
        return {"d": [[y2j(k), y2j(v)] for k, v in y.items()]}
    if isinstance(y, (list, tuple)):
        return [y2j(v) for v in y]
    if isinstance(y, bool) or y is None or isinstance(y, (int, str)):
        return y
    if isinstance(y, float):
        return {"f": repr(y)}
    return {"f": "opaque:" + type(y).__name__}


def j2y(j):
    if isinstance(j, dict):
        if "d" in j:
            return {j2y(k): j2y(v) for k, v in j["d"]}
        return float(j["f"])
    if isinstance(j, list):
        return [j2y(v) for v in j]
    return j


class Driver:
    def __init__(self):
        self.p = subprocess.Popen([DRIVER], stdin=subprocess.PIPE, stdout=subprocess.PIPE, text=True, bufsize=1)
        self.requests = 0

    def call(self, req):
        self.requests += 1
        self.p.stdin.write(json.dumps(req) + "\n")
        self.p.stdin.flush()
        line = self.p.stdout.readline()
        if not line:
            raise RuntimeError("model driver died on request: " + json.dumps(req)[:500])
        rep = json.loads(line)
        if "bad" in rep:
            raise RuntimeError("model driver rejected request (%s): %s" % (rep["bad"], json.dumps(req)[:500]))
        return rep

    def close(self):
        try:
            self.p.stdin.close()
            self.p.wait(timeout=5)
        except Exception:
            self.p.kill()


def outcome(rep):
    """Canonical outcome of a model reply: ('ok', value) | ('err',) | ('unsup', msg)."""
    if "ok" in rep:
        return ("ok", rep["ok"])
    if "err" in rep:
        return ("err", rep["err"])
    return ("unsup", rep.get("unsup"))

"""Lean stage of a check run: regenerate the constants (T0), build, audit the property theorems."""
import fcntl, glob, hashlib, json, os, re, subprocess, sys, time

HERE = os.path.dirname(os.path.abspath(__file__))
VERIF = os.path.abspath(os.path.join(HERE, ".."))
LEAN = os.path.join(VERIF, "lean")
LOCK = os.path.join(VERIF, ".check.lock")
ALLOWED_AXIOMS = {"propext", "Classical.choice", "Quot.sound"}
FORBIDDEN = re.compile(r"\bsorry\b|\badmit\b|^\s*axiom\s|native_decide|bv_decide|implemented_by|\bunsafe\s|maxHeartbeats\s+0\b|\bpartial\s+def\b")


class HarnessError(Exception):
    pass


def run(cmd, cwd=LEAN, timeout=3600):
    p = subprocess.run(cmd, cwd=cwd, capture_output=True, text=True, timeout=timeout)
    return p.returncode, p.stdout + p.stderr


def strip_comments(text):
    text = re.sub(r"/-.*?-/", lambda m: "\n" * m.group(0).count("\n"), text, flags=re.S)
    return "\n".join(line.split("--")[0] for line in text.split("\n"))


def forbidden_tokens():
    hits = []
    for f in sorted(glob.glob(os.path.join(LEAN, "Jasm", "**", "*.lean"), recursive=True)):
        body = strip_comments(open(f).read())
        for i, line in enumerate(body.split("\n"), 1):
            if FORBIDDEN.search(line):
                hits.append("%s:%d: %s" % (os.path.relpath(f, LEAN), i, line.strip()[:80]))
    return hits


def property_files(prop):
    """Properties/<prop>.lean plus companion files Properties/<prop><Suffix>.lean (same property, later layers)"""
    d = os.path.join(LEAN, "Jasm", "Properties")
    out = []
    for f in sorted(os.listdir(d)):
        if re.fullmatch(re.escape(prop) + r"([A-Z][A-Za-z]*)?\.lean", f):
            out.append(os.path.join(d, f))
    return out


def property_theorems(prop):
    """names (with namespace) of the theorems stated in the property's files"""
    out = []
    for path in property_files(prop):
        body = strip_comments(open(path).read())
        ns = re.search(r"^namespace\s+(\S+)", body, re.M)
        prefix = (ns.group(1) + ".") if ns else ""
        out += [prefix + m.group(1) for m in re.finditer(r"^theorem\s+(\S+)", body, re.M)]
    return out


def property_modules(prop):
    return ["Jasm.Properties." + os.path.basename(f)[:-5] for f in property_files(prop)]


def tie_theorem_lines():
    path = os.path.join(LEAN, "Jasm", "Proofs", "ConstsTie.lean")
    out = {}
    for i, line in enumerate(open(path).read().split("\n"), 1):
        m = re.match(r"theorem\s+(\S+)", line)
        if m:
            out[i] = m.group(1)
    return out


def lean_stage(prop, thorough=False, consts_needed=()):
    """Returns a dict: obligations, discharged, broken (list of names), axioms, t0 status, log."""
    t0 = time.time()
    res = {"obligations": [], "discharged": [], "broken": [], "axioms": {}, "t0": {}, "notes": []}
    with open(LOCK, "w") as lock:
        fcntl.flock(lock, fcntl.LOCK_EX)
        # T0: constants regenerated from the source
        rc, out = run(["/venv/bin/python", os.path.join(HERE, "extract_consts.py")], cwd=VERIF)
        if rc != 0:
            raise HarnessError("constants extractor failed:\n" + out[-2000:])
        res["t0"] = json.loads(out.strip().split("\n")[-1])
        # model, specification, proofs of this property, driver
        targets = ["Jasm", "jasmdriver"]
        rc, out = run(["lake", "build"] + targets)
        if rc != 0:
            raise HarnessError("lake build failed (not attributable to /repo):\n" + out[-4000:])
        # T0 obligations
        rc, out = run(["lake", "build", "Jasm.Proofs.ConstsTie"])
        lines = tie_theorem_lines()
        broken_ties = set()
        if rc != 0:
            for m in re.finditer(r"ConstsTie\.lean:(\d+):", out):
                ln = int(m.group(1))
                cands = [l for l in lines if l <= ln]
                if cands:
                    broken_ties.add(lines[max(cands)])
            if not broken_ties:
                broken_ties = set(lines.values())
        for name in lines.values():
            const = name[len("tie_"):]
            if const not in (consts_needed or ()):
                continue
            res["obligations"].append("ConstsTie." + name)
            if name in broken_ties:
                res["broken"].append("ConstsTie." + name)
            else:
                res["discharged"].append("ConstsTie." + name)
    # audit of the property theorems (outside the lock: read-only)
    all_thms = property_theorems(prop)
    # the property theorems proper are named after the property (Cxx, Cxx_*); everything else in the file
    # is a supporting lemma: audited in the same way, reported separately, not counted as an obligation
    thms = all_thms
    res["supporting_lemmas"] = []
    if thms:
        audit = os.path.join(LEAN, ".lake", "audit_%s.lean" % prop)
        with open(audit, "w") as f:
            for mod in property_modules(prop):
                f.write("import %s\n" % mod)
            for t in thms:
                f.write("#print axioms %s\n" % t)
        rc, out = run(["lake", "env", "lean", audit])
        if rc != 0:
            raise HarnessError("audit failed:\n" + out[-3000:])
        flat = re.sub(r"\s+", " ", out)
        for t in thms:
            is_property = re.match(r"C\d\d", t.split(".")[-1]) is not None
            (res["obligations"] if is_property else res["supporting_lemmas"]).append(t)
            m = re.search(r"'%s' depends on axioms: \[([^\]]*)\]" % re.escape(t), flat)
            if m:
                ax = [a.strip() for a in m.group(1).split(",") if a.strip()]
            elif re.search(r"'%s' does not depend on any axioms" % re.escape(t), flat):
                ax = []
            else:
                raise HarnessError("audit output has no line for %s:\n%s" % (t, out[-2000:]))
            res["axioms"][t] = ax
            if set(ax) <= ALLOWED_AXIOMS:
                if is_property:
                    res["discharged"].append(t)
            else:
                raise HarnessError("theorem %s depends on non-standard axioms %s" % (t, ax))
    hits = forbidden_tokens()
    if hits:
        raise HarnessError("forbidden tokens in the Lean sources:\n" + "\n".join(hits))
    if thorough and thms:
        rc, out = run(["lake", "env", "leanchecker"] + property_modules(prop), timeout=3000)
        res["leanchecker"] = "ok" if rc == 0 else "FAILED"
        if rc != 0:
            raise HarnessError("leanchecker rejected Jasm.Properties.%s:\n%s" % (prop, out[-2000:]))
    res["wall_s"] = round(time.time() - t0, 2)
    return res
